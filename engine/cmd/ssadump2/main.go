package main

import (
	"fmt"
	"os"
	"strings"

	"golang.org/x/tools/go/packages"
	"golang.org/x/tools/go/ssa"
	"golang.org/x/tools/go/ssa/ssautil"
)

func main() {
	cfg := &packages.Config{Mode: packages.LoadSyntax, Dir: "/repo", BuildFlags: []string{"-tags=verif"}, Env: append(os.Environ(), "GOFLAGS=-mod=mod", "GOPROXY=off")}
	pkgs, err := packages.Load(cfg, os.Args[1])
	if err != nil || packages.PrintErrors(pkgs) > 0 {
		panic(err)
	}
	prog, spkgs := ssautil.Packages(pkgs, ssa.NaiveForm|ssa.GlobalDebug)
	prog.Build()
	for _, p := range spkgs {
		for fn := range ssautil.AllFunctions(prog) {
			if fn.Pkg != p {
				continue
			}
			if len(os.Args) > 2 && !strings.Contains(fn.String(), os.Args[2]) {
				continue
			}
			fn.WriteTo(os.Stdout)
			fmt.Println()
		}
	}
}
