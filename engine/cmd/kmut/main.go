// kmut: enumerates small syntactic mutations of one Go source file (mutation testing of the
// contracts: a mutant that still compiles and that no obligation flags is either equivalent /
// harmless or points at a hole in the contracts).
//
//   kmut -file F -count            print the number of mutation points
//   kmut -file F -n K              print the file with mutation K applied, and a one-line description on stderr
//   kmut -file F -func NAME ...    restrict to the named function(s) (comma separated, method names without receiver)
package main

import (
	"bytes"
	"flag"
	"fmt"
	"go/ast"
	"go/format"
	"go/parser"
	"go/token"
	"os"
	"strings"
)

type mutation struct {
	desc  string
	apply func()
	undo  func()
}

func main() {
	file := flag.String("file", "", "source file")
	n := flag.Int("n", -1, "mutation index")
	count := flag.Bool("count", false, "print number of mutation points")
	funcs := flag.String("func", "", "restrict to these functions")
	flag.Parse()
	fset := token.NewFileSet()
	f, err := parser.ParseFile(fset, *file, nil, parser.ParseComments)
	if err != nil {
		fmt.Fprintln(os.Stderr, err)
		os.Exit(2)
	}
	want := map[string]bool{}
	for _, s := range strings.Split(*funcs, ",") {
		if s != "" {
			want[s] = true
		}
	}
	var muts []mutation
	add := func(pos token.Pos, what string, apply, undo func()) {
		p := fset.Position(pos)
		muts = append(muts, mutation{fmt.Sprintf("%s:%d %s", p.Filename, p.Line, what), apply, undo})
	}
	relops := map[token.Token][]token.Token{
		token.LSS: {token.LEQ, token.GEQ}, token.LEQ: {token.LSS}, token.GTR: {token.GEQ, token.LEQ}, token.GEQ: {token.GTR},
		token.EQL: {token.NEQ}, token.NEQ: {token.EQL}, token.LAND: {token.LOR}, token.LOR: {token.LAND},
		token.ADD: {token.SUB}, token.SUB: {token.ADD},
	}
	for _, d := range f.Decls {
		fd, ok := d.(*ast.FuncDecl)
		if !ok || fd.Body == nil {
			continue
		}
		if len(want) > 0 && !want[fd.Name.Name] {
			continue
		}
		fname := fd.Name.Name
		ast.Inspect(fd.Body, func(nd ast.Node) bool {
			switch x := nd.(type) {
			case *ast.BinaryExpr:
				for _, r := range relops[x.Op] {
					x, old, r := x, x.Op, r
					add(x.OpPos, fmt.Sprintf("%s: %s -> %s", fname, old, r), func() { x.Op = r }, func() { x.Op = old })
				}
			case *ast.UnaryExpr:
				if x.Op == token.NOT {
					x := x
					// drop the negation: replace !e by e  (done by wrapping: !!e is e) -> change operator to '+'? not valid for bool; use parent rewrite below
					_ = x
				}
			case *ast.IfStmt:
				oldCond := x.Cond
				add(x.Pos(), fname+": negate if condition", func() { x.Cond = &ast.UnaryExpr{Op: token.NOT, X: &ast.ParenExpr{X: oldCond}} }, func() { x.Cond = oldCond })
				if x.Else != nil {
					oldElse := x.Else
					add(x.Pos(), fname+": drop else branch", func() { x.Else = nil }, func() { x.Else = oldElse })
				}
			case *ast.BlockStmt:
				for i, st := range x.List {
					i, st, x := i, st, x
					switch s := st.(type) {
					case *ast.ExprStmt, *ast.IncDecStmt, *ast.SendStmt, *ast.GoStmt, *ast.DeferStmt:
						add(st.Pos(), fname+": delete statement "+short(fset, st), func() { x.List[i] = &ast.EmptyStmt{Semicolon: st.Pos()} }, func() { x.List[i] = st })
					case *ast.AssignStmt:
						if s.Tok == token.ASSIGN {
							add(st.Pos(), fname+": delete assignment "+short(fset, st), func() { x.List[i] = &ast.EmptyStmt{Semicolon: st.Pos()} }, func() { x.List[i] = st })
						}
					case *ast.BranchStmt:
						if s.Tok == token.CONTINUE || s.Tok == token.BREAK {
							add(st.Pos(), fname+": delete "+s.Tok.String(), func() { x.List[i] = &ast.EmptyStmt{Semicolon: st.Pos()} }, func() { x.List[i] = st })
						}
					}
				}
			case *ast.CaseClause:
				for i, st := range x.Body {
					i, st, x := i, st, x
					switch s := st.(type) {
					case *ast.ExprStmt, *ast.SendStmt:
						add(st.Pos(), fname+": delete statement "+short(fset, st), func() { x.Body[i] = &ast.EmptyStmt{Semicolon: st.Pos()} }, func() { x.Body[i] = st })
					case *ast.AssignStmt:
						if s.Tok == token.ASSIGN {
							add(st.Pos(), fname+": delete assignment "+short(fset, st), func() { x.Body[i] = &ast.EmptyStmt{Semicolon: st.Pos()} }, func() { x.Body[i] = st })
						}
					case *ast.BranchStmt:
						add(st.Pos(), fname+": delete "+s.Tok.String(), func() { x.Body[i] = &ast.EmptyStmt{Semicolon: st.Pos()} }, func() { x.Body[i] = st })
					}
				}
			case *ast.CommClause:
				for i, st := range x.Body {
					i, st, x := i, st, x
					switch s := st.(type) {
					case *ast.ExprStmt, *ast.SendStmt:
						add(st.Pos(), fname+": delete statement "+short(fset, st), func() { x.Body[i] = &ast.EmptyStmt{Semicolon: st.Pos()} }, func() { x.Body[i] = st })
					case *ast.AssignStmt:
						if s.Tok == token.ASSIGN {
							add(st.Pos(), fname+": delete assignment "+short(fset, st), func() { x.Body[i] = &ast.EmptyStmt{Semicolon: st.Pos()} }, func() { x.Body[i] = st })
						}
					case *ast.BranchStmt:
						add(st.Pos(), fname+": delete "+s.Tok.String(), func() { x.Body[i] = &ast.EmptyStmt{Semicolon: st.Pos()} }, func() { x.Body[i] = st })
					}
				}
			case *ast.BasicLit:
				old := x.Value
				switch {
				case x.Kind == token.INT && old == "0":
					add(x.Pos(), fname+": 0 -> 1", func() { x.Value = "1" }, func() { x.Value = old })
				case x.Kind == token.INT && old == "1":
					add(x.Pos(), fname+": 1 -> 0", func() { x.Value = "0" }, func() { x.Value = old })
				case x.Kind == token.STRING && old == `""`:
					add(x.Pos(), fname+`: "" -> "x"`, func() { x.Value = `"x"` }, func() { x.Value = old })
				}
			case *ast.Ident:
				if x.Name == "true" || x.Name == "false" {
					old := x.Name
					nw := map[string]string{"true": "false", "false": "true"}[old]
					add(x.Pos(), fname+": "+old+" -> "+nw, func() { x.Name = nw }, func() { x.Name = old })
				}
				if x.Name == "EventTypeCreate" || x.Name == "EventTypeUpdate" || x.Name == "EventTypeDelete" {
					old := x.Name
					for _, nw := range []string{"EventTypeCreate", "EventTypeUpdate", "EventTypeDelete"} {
						if nw != old {
							nw := nw
							add(x.Pos(), fname+": "+old+" -> "+nw, func() { x.Name = nw }, func() { x.Name = old })
						}
					}
				}
			}
			return true
		})
	}
	if *count {
		fmt.Println(len(muts))
		return
	}
	if *n < 0 || *n >= len(muts) {
		fmt.Fprintln(os.Stderr, "mutation index out of range")
		os.Exit(2)
	}
	m := muts[*n]
	m.apply()
	var buf bytes.Buffer
	if err := format.Node(&buf, fset, f); err != nil {
		fmt.Fprintln(os.Stderr, err)
		os.Exit(2)
	}
	os.Stdout.Write(buf.Bytes())
	fmt.Fprintln(os.Stderr, m.desc)
}

func short(fset *token.FileSet, n ast.Node) string {
	var b bytes.Buffer
	format.Node(&b, fset, n)
	s := strings.Join(strings.Fields(b.String()), " ")
	if len(s) > 60 {
		s = s[:60] + "..."
	}
	return s
}
