package main

// Replay: attach a concrete failing input, run on the REAL code of the working
// tree, to a failed obligation.  Two kinds of harness, both Go tests injected
// with `go test -overlay` (nothing is written into the repository):
//   - bounded searches over small universes that compare the real functions with an
//     executable transcription of the contract's spec functions (cache, filters);
//   - scripted scenarios for the actor obligations whose failure was confirmed by
//     such a scenario (ticker, watch session, watcher, IngressPods, typed monitor, RC filter).
// A replay never decides anything: a failed obligation is a violation whether or not
// an input is found; without one the VIOLATION line ends with no-failing-input-found.

import (
	"encoding/json"
	"sort"
	"fmt"
	"os"
	"os/exec"
	"path/filepath"
	"regexp"
	"strings"
	"sync"
	"time"
)

type replayResult struct {
	found bool
	text  string
}

type harness struct {
	fn   *regexp.Regexp
	pkg  string // package directory relative to the repository root
	file string // under /verif/replay
	test string
	what string
}

var harnesses = []harness{
	{regexp.MustCompile(`^\(\*kcache\._cache\)\.(doSync|doUpdate|doRefilter|doList|createKey|createEntry)/`), ".", "cache_search_test.go.txt", "TestReplaySearchCache", "bounded search: 2 keys x 5 versions x 2 labels, 4 filters, contents <= 2 entries, lists <= 2 elements, real functions vs executable reference semantics"},
	{regexp.MustCompile(`^\(\*kcache\._ticker\)\.`), ".", "d5_test.go.txt", "TestReplayD5", "scenario: Reset() after the fired timer value was consumed"},
	{regexp.MustCompile(`^\(\*kcache\._watchSession\)\.stop/`), ".", "d7_test.go.txt", "TestReplayD7", "scenario: Watch() that returns only on context cancellation"},
	{regexp.MustCompile(`^\(\*kcache\._watcher\)\.run/`), ".", "d4_test.go.txt", "TestReplayD4", "scenario: watch reconnect with the refresh period far away"},
	{regexp.MustCompile(`^join\.IngressPods`), "join", "d6_test.go.txt", "TestReplayD6", "scenario: create/close cycles of IngressPods, goroutine census"},
	{regexp.MustCompile(`^\(?\*?types/pod\.(_adapter|cache|subscription)\)|^types/pod\.(wrapEvent|newSubscription|newCache)`), "types/pod", "typed_layer_pod_test.go.txt", "TestReplayTypedLayerPod", "the real adapter / typed cache / event wrapper / typed subscription of package pod against the property's sentences"},
	{regexp.MustCompile(`^types/pod\.NewMonitor\$`), "types/pod", "d8_test.go.txt", "TestReplayD8", "scenario: foreign-typed object on a typed controller's watch"},
	{regexp.MustCompile(`^types/replicationcontroller\.PodsFilter/`), "types/replicationcontroller", "d3_test.go.txt", "TestReplayD3", "inputs: RC in another namespace; selector-less RC with template labels"},
	{regexp.MustCompile(`^types/(service|deployment|replicaset|daemonset|statefulset|job|ingress)\.|^\(?\*?types/(pod|event|service)\.(nodeFilter|involvedFilter|serviceForFilter)|^types/(pod|event|service)\.(NodeFilter|InvolvedFilter|SelectorMatchFilter)`), "join", "typed_filter_search_test.go.txt", "TestReplaySearchTypedFilters", "bounded search: workload/ingress/node/event/selector-match filters over 2 namespaces x 3 selectors x 2 template label sets, up to 2 workloads, real functions vs executable ownership semantics"},
	{regexp.MustCompile(`^assumed-contracts-never-a-replay$`), "filter", "assumed_contracts_test.go.txt", "TestAssumedContracts", "bounded stand-in for the assumed library contracts (labels, LabelSelectorAsSelector, reflect.DeepEqual, labels.Equals, sort.Slice, strconv.Atoi, errors.Wrap, meta helpers, time.Timer) over small universes"},
	{regexp.MustCompile(`^\(?\*?filter\.|^filter\.`), "filter", "filter_search_test.go.txt", "TestReplaySearchFilters", "bounded search: filter terms up to depth 2 over a small universe, real Accept/Equals vs executable semantics"},
}

var replayCache = map[string]replayResult{}
var replayMu sync.Mutex

func tryReplay(e *engine, o *oblig, prop string) replayResult {
	var h *harness
	for i := range harnesses {
		if harnesses[i].fn.MatchString(o.name) {
			h = &harnesses[i]
			break
		}
	}
	if h == nil {
		return replayScenarios(e, o, prop)
	}
	src := filepath.Join("/verif/replay", h.file)
	if _, err := os.Stat(src); err != nil {
		return replayScenarios(e, o, prop)
	}
	replayMu.Lock()
	if r, ok := replayCache[h.file]; ok {
		replayMu.Unlock()
		return r
	}
	replayMu.Unlock()
	r := runHarness(e, h)
	replayMu.Lock()
	replayCache[h.file] = r
	replayMu.Unlock()
	if !r.found {
		if r2 := replayScenarios(e, o, prop); r2.found {
			return r2
		}
	}
	return r
}

// replayScenarios: the scenario tests kept with the seeded changes (each validated to pass on the
// unchanged code) double as replays: those recorded for an obligation of the same function, then
// those of the same property, are run on the working tree; the first that fails is attached.
func replayScenarios(e *engine, o *oblig, prop string) replayResult {
	metas, _ := filepath.Glob("/verif/seeded/*/meta.json")
	sort.Strings(metas)
	type cand struct {
		dir, pkg, test string
		rank int
	}
	var cands []cand
	fnKey := sanitizeFile(o.fn)
	for _, mf := range metas {
		data, err := os.ReadFile(mf)
		if err != nil {
			continue
		}
		var m struct {
			Property   string   `json:"property"`
			Pkg        string   `json:"demo_package_dir"`
			Test       string   `json:"demo_test"`
			DetectedBy []string `json:"detected_by"`
		}
		if json.Unmarshal(data, &m) != nil || m.Test == "" {
			continue
		}
		rank := 0
		for _, d := range m.DetectedBy {
			if strings.Contains(d, fnKey) {
				rank = 2
			}
		}
		if rank == 0 && m.Property == prop {
			rank = 1
		}
		if rank > 0 {
			cands = append(cands, cand{filepath.Dir(mf), m.Pkg, m.Test, rank})
		}
	}
	sort.SliceStable(cands, func(i, j int) bool { return cands[i].rank > cands[j].rank })
	if len(cands) > 5 {
		cands = cands[:5]
	}
	var tried []string
	for _, c := range cands {
		key := "scenario:" + c.dir
		replayMu.Lock()
		r, ok := replayCache[key]
		replayMu.Unlock()
		if !ok {
			h := &harness{pkg: c.pkg, file: "", test: c.test, what: "scenario test kept with seeded change " + filepath.Base(c.dir)}
			r = runHarnessFile(e, h, filepath.Join(c.dir, "demo_test.go.txt"))
			replayMu.Lock()
			replayCache[key] = r
			replayMu.Unlock()
		}
		if r.found {
			return r
		}
		tried = append(tried, filepath.Base(c.dir))
	}
	if len(tried) == 0 {
		return replayResult{}
	}
	return replayResult{text: "scenario tests run on the working tree, none failed: " + strings.Join(tried, ", ")}
}

func runHarness(e *engine, h *harness) replayResult {
	return runHarnessFile(e, h, filepath.Join("/verif/replay", h.file))
}

func runHarnessFile(e *engine, h *harness, src string) replayResult {
	dir, _ := os.MkdirTemp("", "kvc-replay")
	defer os.RemoveAll(dir)
	target := filepath.Join(e.repo, h.pkg, "zz_replay_verif_test.go")
	ov, _ := json.Marshal(map[string]map[string]string{"Replace": {target: src}})
	ovf := filepath.Join(dir, "overlay.json")
	os.WriteFile(ovf, ov, 0644)
	t0 := time.Now()
	cmd := exec.Command("go", "test", "-overlay", ovf, "-vet=off", "-count=1", "-timeout", "120s", "-run", "^"+h.test, "./"+h.pkg)
	cmd.Dir = e.repo
	cmd.Env = append(os.Environ(), "GOFLAGS=-mod=mod", "GOPROXY=off", "GOSUMDB=off", "GOTOOLCHAIN=local")
	out, err := cmd.CombinedOutput()
	var keep []string
	for _, l := range strings.Split(string(out), "\n") {
		if strings.Contains(l, "DEBUG:") || strings.Contains(l, "WARN:") || strings.TrimSpace(l) == "" {
			continue
		}
		keep = append(keep, l)
		if len(keep) > 40 {
			break
		}
	}
	hdr := fmt.Sprintf("harness: %s (%s)\ncommand: cd %s && go test -overlay <%s -> %s> -vet=off -count=1 -timeout 120s -run '^%s' ./%s   (%.1fs)\n",
		src, h.what, e.repo, target, src, h.test, h.pkg, time.Since(t0).Seconds())
	r := replayResult{text: hdr + strings.Join(keep, "\n")}
	if err != nil && strings.Contains(string(out), "--- FAIL") {
		r.found = true
	}
	return r
}
