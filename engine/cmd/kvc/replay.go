package main

type replayResult struct {
	found bool
	text  string
}

// tryReplay attempts to attach a concrete failing input (run on the real code) to a failed obligation.
func tryReplay(e *engine, o *oblig, prop string) replayResult { return replayResult{} }
