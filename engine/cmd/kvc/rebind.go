package main

// Rename tolerance.  Contracts live in a separate file and name local variables of the function
// (loop invariants, anchors).  When a local is renamed in the code, the clauses naming it no longer
// bind ("unmapped") although nothing of substance changed.  Before reporting that, the generator
// looks for a rebinding: every contract name that is no longer a variable of the function is mapped,
// injectively, to a variable of the function that the contract does not mention; a rebinding is
// accepted only if, under it, EVERY obligation of the function is discharged (postconditions,
// property-labelled assertions, invariants, frames, safety).  The accepted rebinding is reported
// in the notes; otherwise the original unmapped failures stand.

import (
	"fmt"
	"go/ast"
	"go/parser"
	"os"
	"regexp"
	"runtime"
	"sort"
	"strings"

	"golang.org/x/tools/go/ssa"
)

var identRe = regexp.MustCompile(`[A-Za-z_][A-Za-z0-9_]*`)

// contractIdents: identifiers a contract block uses for variables: the head identifier of every
// hole expression and the identifiers inside anchor arguments.
func contractIdents(blk *block) (map[string]bool, map[string]bool) {
	all, prop := map[string]bool{}, map[string]bool{}
	out := all
	var walk func(f *sx)
	walk = func(f *sx) {
		if f == nil {
			return
		}
		if !f.isL {
			if strings.HasPrefix(f.atom, "{") && strings.HasSuffix(f.atom, "}") {
				src := atRe.ReplaceAllString(f.atom[1:len(f.atom)-1], "${1}")
				src = strings.ReplaceAll(src, "$", "DOLLAR__")
				if i := strings.Index(src, ":"); i >= 0 && strings.HasPrefix(src, "zero") {
					return
				}
				if e, err := parser.ParseExpr(src); err == nil {
					ast.Inspect(e, func(n ast.Node) bool {
						switch x := n.(type) {
						case *ast.SelectorExpr:
							ast.Inspect(x.X, func(m ast.Node) bool {
								if id, ok := m.(*ast.Ident); ok {
									out[id.Name] = true
								}
								return true
							})
							return false
						case *ast.CallExpr:
							for _, a := range x.Args {
								ast.Inspect(a, func(m ast.Node) bool {
									if id, ok := m.(*ast.Ident); ok {
										out[id.Name] = true
									}
									return true
								})
							}
							return false
						case *ast.Ident:
							out[x.Name] = true
						}
						return true
					})
				}
			}
			return
		}
		for _, c := range f.list {
			walk(c)
		}
	}
	for _, c := range blk.clauses {
		// names in clauses that state the property (postconditions, preconditions, assertions at anchors) are
		// recorded separately: rebinding them would change what is being claimed.  Clauses labelled step:, link:
		// or opt: are proof steps / links between a local and the abstraction and count as auxiliary.
		out = all
		aux := strings.HasPrefix(c.label, "step:") || strings.HasPrefix(c.label, "link:") || strings.HasPrefix(c.label, "opt:")
		if (c.kind == "ensures" || c.kind == "exit" || c.kind == "requires" || c.kind == "at-assert") && !aux {
			before := map[string]bool{}
			for k := range all {
				before[k] = true
			}
			walk(c.f)
			for k := range all {
				if !before[k] {
					prop[k] = true
				}
			}
			// names already seen elsewhere but used here too
			tmp := map[string]bool{}
			out = tmp
			walk(c.f)
			for k := range tmp {
				prop[k] = true
				all[k] = true
			}
			out = all
		} else {
			walk(c.f)
		}
		if c.anchor != "" {
			if a, err := parseAnchor(c.anchor); err == nil && a.kind != "call" && a.kind != "go" {
				// anchors on calls / go statements name the callee, the others a variable or field expression
				src := strings.ReplaceAll(a.arg, "$", "DOLLAR__")
				if e, err := parser.ParseExpr(src); err == nil {
					switch x := e.(type) {
					case *ast.Ident:
						out[x.Name] = true
					case *ast.SelectorExpr:
						ast.Inspect(x.X, func(m ast.Node) bool {
							if id, ok := m.(*ast.Ident); ok {
								out[id.Name] = true
							}
							return true
						})
					}
				}
			}
		}
	}
	return all, prop
}

// familyVars: every variable name of the outermost enclosing function and all its closures.
func familyVars(fn *ssa.Function) map[string]bool {
	root := fn
	for root.Parent() != nil {
		root = root.Parent()
	}
	out := map[string]bool{}
	var rec func(f *ssa.Function)
	rec = func(f *ssa.Function) {
		for _, v := range codeVars(f) {
			out[v] = true
		}
		for _, p := range f.Params {
			out[p.Name()] = true
		}
		for _, a := range f.AnonFuncs {
			rec(a)
		}
	}
	rec(root)
	return out
}

func codeVars(fn *ssa.Function) []string {
	seen := map[string]bool{}
	for _, b := range fn.Blocks {
		for _, ins := range b.Instrs {
			if a, ok := ins.(*ssa.Alloc); ok && a.Comment != "" && identRe.FindString(a.Comment) == a.Comment {
				seen[a.Comment] = true
			}
		}
	}
	for _, fv := range fn.FreeVars {
		seen[fv.Name()] = true
	}
	var out []string
	for k := range seen {
		out = append(out, k)
	}
	sort.Strings(out)
	return out
}

// tryRebind: res is the result of verifying fn against blk and contains unmapped obligations.
func (e *engine) tryRebind(fn *ssa.Function, blk *block, res *fnResult) *fnResult {
	hasUnmapped := false
	for _, o := range res.obligs {
		if o.kind == "unmapped" {
			hasUnmapped = true
		}
	}
	rejectedUnknown := ""
	if m := regexp.MustCompile(`unknown name ([A-Za-z_][A-Za-z0-9_]*)`).FindStringSubmatch(res.rejected); m != nil {
		rejectedUnknown = m[1]
	}
	if (!hasUnmapped && rejectedUnknown == "") || (res.rejected != "" && rejectedUnknown == "") {
		return res
	}
	base := e.positionalRenames(fn)
	if len(base) > 0 {
		if r2 := e.acceptUnder(fn, blk, base, "renamed variables recognised by position and type against the locals snapshot"); r2 != nil {
			return r2
		}
		// some clauses may still not bind (a group of variables changed shape): continue the search on top of these renames
		if rb := e.verifyFuncWith(fn, blk, base); rb.rejected == "" || strings.Contains(rb.rejected, "unknown name") {
			res = rb
		}
	}
	vars := codeVars(fn)
	isVar := map[string]bool{}
	for _, v := range vars {
		isVar[v] = true
	}
	for _, p := range fn.Params {
		isVar[p.Name()] = true
	}
	used, propNames := contractIdents(blk)
	family := familyVars(fn)
	ghosts := map[string]bool{}
	for _, c := range blk.byKind("ghost") {
		ghosts[c.gname] = true
	}
	// names of the contract that used to be variables of the function and are not any more
	var missing []string
	for n := range used {
		if _, done := base[n]; done {
			continue
		}
		if isVar[n] || ghosts[n] || strings.HasPrefix(n, "DOLLAR__") || n == "nil" || n == "true" || n == "false" || n == "rangeindex" || n == "len" || n == "dom" || n == "val" || n == "closed" || n == "sent" ||
			n == "rcvd" || n == "full" || n == "fdom" || n == "fval" || n == "allocated" || n == "cap" {
			continue
		}
		// only names that some unmapped obligation complains about, or that are anchor arguments
		missing = append(missing, n)
	}
	sort.Strings(missing)
	// keep only names actually reported unknown (or anchor-only names: anchors that never fired)
	var unknown []string
	for _, n := range missing {
		if n == rejectedUnknown {
			unknown = append(unknown, n)
			continue
		}
		for _, o := range res.obligs {
			if o.kind == "unmapped" && (strings.Contains(o.model, "unknown name "+n) || strings.Contains(o.name, "("+n+")") || strings.Contains(o.clause, "{"+n)) {
				unknown = append(unknown, n)
				break
			}
		}
	}
	if os.Getenv("KVC_DEBUG_REBIND") != "" {
		fmt.Fprintf(os.Stderr, "REBIND %s: base=%v missing=%v unknown=%v\n", canonName(fn), base, missing, unknown)
	}
	if len(unknown) == 0 || len(unknown) > 2 {
		return res
	}
	for _, u := range unknown {
		// not a rename: the name states part of the property, is an exported (method / field) name, or is still
		// a variable elsewhere in the enclosing function (the code now uses a different variable)
		if propNames[u] || family[u] || (u[0] >= 'A' && u[0] <= 'Z') {
			return res
		}
	}
	taken := map[string]bool{}
	for _, v := range base {
		taken[v] = true
	}
	var cands []string
	for _, v := range vars {
		if !used[v] && !taken[v] {
			cands = append(cands, v)
		}
	}
	if os.Getenv("KVC_DEBUG_REBIND") != "" {
		fmt.Fprintf(os.Stderr, "REBIND %s: cands=%v\n", canonName(fn), cands)
	}
	if len(cands) == 0 || len(cands) > 24 {
		return res
	}
	var tries []map[string]string
	if len(unknown) == 1 {
		for _, c := range cands {
			tries = append(tries, map[string]string{unknown[0]: c})
		}
	} else {
		for _, c1 := range cands {
			for _, c2 := range cands {
				if c1 != c2 {
					tries = append(tries, map[string]string{unknown[0]: c1, unknown[1]: c2})
				}
			}
		}
	}
	dir, _ := os.MkdirTemp("", "kvc-rebind")
	defer os.RemoveAll(dir)
	for _, alias := range tries {
		for k, v := range base {
			if _, ok := alias[k]; !ok {
				alias[k] = v
			}
		}
		r2 := e.verifyFuncWith(fn, blk, alias)
		if r2.rejected != "" {
			continue
		}
		bad := false
		for _, o := range r2.obligs {
			if o.kind == "unmapped" {
				bad = true
			}
		}
		if bad {
			continue
		}
		var todo, first []*oblig
		for _, o := range r2.obligs {
			if o.thoroughOnly {
				continue
			}
			todo = append(todo, o)
			for _, u := range unknown {
				if strings.Contains(o.clause, "{"+u) && len(first) < 6 {
					first = append(first, o)
					break
				}
			}
		}
		// cheap filter: the clauses that mention the renamed variable, with a short timeout
		discharge(first, dischargeOpts{quickSecs: 3, fullSecs: 3, workdir: dir, jobs: runtime.NumCPU()})
		pre := true
		for _, o := range first {
			if !okOblig(o) {
				pre = false
				break
			}
		}
		if !pre {
			continue
		}
		for _, o := range first {
			o.prebaked = true
		}
		discharge(todo, dischargeOpts{quickSecs: 10, fullSecs: 20, workdir: dir, jobs: runtime.NumCPU()})
		allOK := true
		for _, o := range todo {
			if !okOblig(o) {
				allOK = false
				break
			}
		}
		if !allOK {
			continue
		}
		var parts []string
		for k, v := range alias {
			parts = append(parts, fmt.Sprintf("%s -> %s", k, v))
		}
		sort.Strings(parts)
		r2.notes = append(r2.notes, "rename-tolerant rebinding accepted (every obligation discharged under it): contract name "+strings.Join(parts, ", "))
		for _, o := range r2.obligs {
			if !o.thoroughOnly {
				o.prebaked = true
			}
		}
		return r2
	}
	return res
}

// ---- positional renames ----------------------------------------------------------------------
// /verif/theory/locals.snapshot lists, for every function under contract, its local variables and
// captured variables in declaration order with their types, as they were when the contracts were last
// proved on the committed tree (tools/gen_snapshot.sh; derived mechanically from /repo).  If the current
// function has the same number of variables with the same types in the same order, variables whose
// names differ at the same position are renames.  The snapshot is only a hint: the renaming is accepted
// only if every obligation of the function is discharged under it.

type localVar struct{ name, typ string }

func orderedLocals(fn *ssa.Function) []localVar {
	type av struct {
		a *ssa.Alloc
	}
	var as []*ssa.Alloc
	for _, b := range fn.Blocks {
		for _, ins := range b.Instrs {
			if a, ok := ins.(*ssa.Alloc); ok && a.Comment != "" && identRe.FindString(a.Comment) == a.Comment {
				as = append(as, a)
			}
		}
	}
	sort.SliceStable(as, func(i, j int) bool { return as[i].Pos() < as[j].Pos() })
	var out []localVar
	for _, fv := range fn.FreeVars {
		out = append(out, localVar{fv.Name(), "free:" + typeName(fv.Type())})
	}
	isParam := map[string]bool{}
	for _, p := range fn.Params {
		isParam[p.Name()] = true
		out = append(out, localVar{p.Name(), "param:" + typeName(p.Type())})
	}
	for _, a := range as {
		if isParam[a.Comment] || compilerTemp[a.Comment] {
			continue
		}
		out = append(out, localVar{a.Comment, typeName(a.Type())})
	}
	return out
}

// allocations go/ssa introduces for literals and variadic calls (not variables of the source)
var compilerTemp = map[string]bool{"complit": true, "slicelit": true, "varargs": true, "makeslice": true, "new": true, "mapliteral": true, "rangeindex": true}

func (e *engine) snapshotFor(name string) []localVar {
	if e.localsSnap == nil {
		e.localsSnap = map[string][]localVar{}
		data, err := os.ReadFile(e.snapshotFile)
		if err == nil {
			for _, line := range strings.Split(string(data), "\n") {
				parts := strings.SplitN(line, "\t", 2)
				if len(parts) != 2 {
					continue
				}
				var vs []localVar
				for _, f := range strings.Split(parts[1], "|||") {
					if i := strings.Index(f, ":"); i > 0 {
						vs = append(vs, localVar{f[:i], f[i+1:]})
					}
				}
				e.localsSnap[parts[0]] = vs
			}
		}
	}
	return e.localsSnap[name]
}

func (e *engine) positionalRenames(fn *ssa.Function) map[string]string {
	old := e.snapshotFor(canonName(fn))
	cur := orderedLocals(fn)
	if len(old) == 0 {
		return nil
	}
	// parameters, captured variables and locals are aligned separately: a group whose shape (number and types)
	// is unchanged yields renames by position; a group whose shape changed yields none
	group := func(vs []localVar, kind string) []localVar {
		var out []localVar
		for _, v := range vs {
			k := "local"
			if strings.HasPrefix(v.typ, "param:") {
				k = "param"
			} else if strings.HasPrefix(v.typ, "free:") {
				k = "free"
			}
			if k == kind {
				out = append(out, v)
			}
		}
		return out
	}
	alias := map[string]string{}
	for _, kind := range []string{"param", "free", "local"} {
		o, c := group(old, kind), group(cur, kind)
		if len(o) != len(c) {
			// the group changed shape (a temporary was added or removed): a variable whose type is unique in the
			// group, before and after, and whose old name is gone while exactly one new name of that type appeared,
			// is still recognisably the same variable
			oldNames, curNames := map[string]bool{}, map[string]bool{}
			for _, v := range o {
				oldNames[v.name] = true
			}
			for _, v := range c {
				curNames[v.name] = true
			}
			count := func(vs []localVar, typ string) int {
				n := 0
				for _, v := range vs {
					if v.typ == typ {
						n++
					}
				}
				return n
			}
			for _, ov := range o {
				if curNames[ov.name] || count(o, ov.typ) != 1 || count(c, ov.typ) != 1 {
					continue
				}
				for _, cv := range c {
					if cv.typ == ov.typ && !oldNames[cv.name] {
						alias[ov.name] = cv.name
					}
				}
			}
			continue
		}
		same := true
		for i := range o {
			if o[i].typ != c[i].typ {
				same = false
			}
		}
		if !same {
			continue
		}
		for i := range o {
			if o[i].name != c[i].name {
				if prev, ok := alias[o[i].name]; ok && prev != c[i].name {
					return nil // the same old name declared several times and renamed differently: not handled
				}
				alias[o[i].name] = c[i].name
			}
		}
	}
	if len(alias) == 0 {
		return nil
	}
	// an old name that is still in use elsewhere in the function cannot be redirected as a whole
	curNames := map[string]bool{}
	for _, v := range cur {
		curNames[v.name] = true
	}
	family := familyVars(fn)
	for o := range alias {
		// the old name is still a variable of this function or of its enclosing function / sibling closures:
		// the code now uses a different variable, which is not a rename
		if curNames[o] || family[o] {
			delete(alias, o)
		}
	}
	return alias
}

// acceptUnder verifies fn against blk under the given renaming and discharges every obligation; nil unless all pass.
func (e *engine) acceptUnder(fn *ssa.Function, blk *block, alias map[string]string, how string) *fnResult {
	r2 := e.verifyFuncWith(fn, blk, alias)
	if r2.rejected != "" {
		return nil
	}
	var todo []*oblig
	for _, o := range r2.obligs {
		if o.kind == "unmapped" {
			return nil
		}
		if !o.thoroughOnly {
			todo = append(todo, o)
		}
	}
	dir, _ := os.MkdirTemp("", "kvc-rename")
	defer os.RemoveAll(dir)
	discharge(todo, dischargeOpts{quickSecs: 10, fullSecs: 20, workdir: dir, jobs: runtime.NumCPU()})
	for _, o := range todo {
		if !okOblig(o) {
			return nil
		}
	}
	var parts []string
	for k, v := range alias {
		parts = append(parts, fmt.Sprintf("%s -> %s", k, v))
	}
	sort.Strings(parts)
	r2.notes = append(r2.notes, how+" (every obligation discharged under the renaming): "+strings.Join(parts, ", "))
	for _, o := range todo {
		o.prebaked = true
	}
	return r2
}

// paramRenames: parameters of fn whose names differ from the snapshot at the same position with the same type
// (old name -> current name); used when the contract of a callee with renamed parameters is applied at a call site.
func (e *engine) paramRenames(fn *ssa.Function) map[string]string {
	old := e.snapshotFor(canonName(fn))
	if len(old) == 0 {
		return nil
	}
	var oldParams []localVar
	for _, v := range old {
		if strings.HasPrefix(v.typ, "param:") {
			oldParams = append(oldParams, v)
		}
	}
	if len(oldParams) != len(fn.Params) {
		return nil
	}
	out := map[string]string{}
	for i, p := range fn.Params {
		if oldParams[i].typ != "param:"+typeName(p.Type()) {
			return nil
		}
		if oldParams[i].name != p.Name() {
			out[oldParams[i].name] = p.Name()
		}
	}
	return out
}
