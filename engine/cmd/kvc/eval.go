package main

// Evaluation of contract formulas: SMT-LIB terms with {go-expr} holes.

import (
	"fmt"
	"go/ast"
	"go/parser"
	"go/token"
	"go/types"
	"regexp"
	"sort"
	"strconv"
	"strings"

	"golang.org/x/tools/go/ssa"
)

type evalCtx struct {
	cur, old *state
	bind     map[string]Val
	callee   bool // contract of a callee evaluated at a call site: caller locals are not visible
	preferBind bool // names in bind win over locals of the same name (closure contracts instantiated at sort.Slice)
	visited  string
}

var atRe = regexp.MustCompile(`([A-Za-z_][A-Za-z0-9_]*)@(\d+)`)

func (fc *fnCtx) evalFormula(f *sx, ev *evalCtx) string {
	if !f.isL {
		a := f.atom
		switch {
		case strings.HasPrefix(a, "{"):
			return fc.evalHole(a[1:len(a)-1], ev).T
		case strings.HasPrefix(a, "\""):
			return fc.strConst(a[1 : len(a)-1])
		case strings.HasPrefix(a, "|str!"):
			fc.strs[a] = true
		case strings.HasPrefix(a, "|ty!"):
			fc.tyNames[a] = true
		case strings.HasPrefix(a, "|F!"):
			fc.declImmutableByName(a)
		case strings.HasPrefix(a, "$"):
			if v, ok := ev.bind[a]; ok {
				return v.T
			}
			if a == "$visited" {
				return fc.visitedTerm(ev)
			}
			if a == "$closed" {
				return fc.heapVar(ev.cur, "ch!closed", "(Array V Bool)")
			}
			panic(unsupported{fmt.Sprintf("unbound %s in contract formula", a)})
		case a == "result":
			if v, ok := ev.bind["result"]; ok {
				return v.T
			}
		default:
			if v, ok := ev.bind[a]; ok && strings.HasPrefix(a, "result") {
				return v.T
			}
			if g, ok := ev.cur.ghost[a]; ok {
				return g.T
			}
		}
		return a
	}
	if len(f.list) == 2 && f.list[0].atom == "old" {
		return fc.evalFormula(f.list[1], &evalCtx{cur: ev.old, old: ev.old, bind: ev.bind, callee: ev.callee, visited: ev.visited})
	}
	// binders: do not substitute ghost names that are shadowed by bound variables (ghost names are
	// required to differ from bound variable names; checked when contracts are loaded)
	parts := make([]string, len(f.list))
	for i, c := range f.list {
		parts[i] = fc.evalFormula(c, ev)
	}
	return "(" + strings.Join(parts, " ") + ")"
}

func (fc *fnCtx) visitedTerm(ev *evalCtx) string {
	name := ev.visited
	if name == "" {
		name = fc.lastVisited
	}
	if g, ok := ev.cur.ghost[name]; ok {
		return g.T
	}
	panic(unsupported{"$visited used outside a range-over-map loop"})
}

func (fc *fnCtx) evalHole(text string, ev *evalCtx) Val {
	if strings.HasPrefix(text, "zero:") {
		tn := strings.TrimSpace(text[5:])
		t := fc.e.typeByName[tn]
		if t == nil && strings.HasPrefix(tn, "[]") {
			if et := fc.e.typeByName[tn[2:]]; et != nil {
				t = types.NewSlice(et)
			}
		}
		if t == nil {
			panic(unsupported{"hole {" + text + "}: unknown type"})
		}
		return Val{T: fc.e.sorts.zero(t), S: fc.sortOf(t), Ty: t}
	}
	src := atRe.ReplaceAllString(text, "${1}__AT__${2}")
	src = strings.ReplaceAll(src, "$", "DOLLAR__")
	e, err := parser.ParseExpr(src)
	if err != nil {
		panic(unsupported{fmt.Sprintf("hole {%s}: %v", text, err)})
	}
	return fc.evalExpr(e, ev, text)
}

// inductionVar: for "rangeindex" / "rangeindex@k": the k-th loop counter of the function in source order,
// counting both compiler-generated range indices and integer locals that are incremented by one; returns
// the local when that counter is such an induction variable (nil when it is a real range index or absent).
func (fc *fnCtx) inductionVar(name string) *ssa.Alloc {
	want := 1
	if i := strings.Index(name, "__AT__"); i >= 0 {
		want, _ = strconv.Atoi(name[i+6:])
	}
	var counters []*ssa.Alloc
	isInd := map[*ssa.Alloc]bool{}
	for _, b := range fc.fn.Blocks {
		for _, ins := range b.Instrs {
			a, ok := ins.(*ssa.Alloc)
			if !ok {
				continue
			}
			if a.Comment == "rangeindex" {
				counters = append(counters, a)
				continue
			}
			if bt, ok := a.Type().(*types.Pointer).Elem().Underlying().(*types.Basic); !ok || bt.Kind() != types.Int {
				continue
			}
			for _, ref := range *a.Referrers() {
				st, ok := ref.(*ssa.Store)
				if !ok || st.Addr != a {
					continue
				}
				if bo, ok := st.Val.(*ssa.BinOp); ok && bo.Op == token.ADD {
					if ld, ok := bo.X.(*ssa.UnOp); ok && ld.Op == token.MUL && ld.X == a {
						if c, ok := bo.Y.(*ssa.Const); ok && c.Value != nil && c.Int64() == 1 {
							isInd[a] = true
						}
					}
				}
			}
			if isInd[a] {
				counters = append(counters, a)
			}
		}
	}
	sort.SliceStable(counters, func(i, j int) bool { return counters[i].Pos() < counters[j].Pos() })
	if want < 1 || want > len(counters) || !isInd[counters[want-1]] {
		return nil
	}
	return counters[want-1]
}

// hasLocalNamed: the function under contract has a local variable or captured variable of this name.
func (fc *fnCtx) hasLocalNamed(name string) bool {
	name = fc.codeName(name)
	for _, b := range fc.fn.Blocks {
		for _, ins := range b.Instrs {
			if a, ok := ins.(*ssa.Alloc); ok && a.Comment == name {
				return true
			}
		}
	}
	for _, fv := range fc.fn.FreeVars {
		if fv.Name() == name {
			return true
		}
	}
	return false
}

// codeName / contractName translate between the name a contract uses for a local variable and the
// name the variable has in the code (they differ only after the rename-tolerant rebinding, see rebind.go).
func (fc *fnCtx) codeName(contractName string) string {
	if n, ok := fc.alias[contractName]; ok {
		return n
	}
	return contractName
}

func (fc *fnCtx) contractName(codeName string) string {
	for k, v := range fc.alias {
		if v == codeName {
			return k
		}
	}
	return codeName
}

func (fc *fnCtx) localAlloc(name string) *ssa.Alloc {
	want := 0
	if i := strings.Index(name, "__AT__"); i >= 0 {
		want, _ = strconv.Atoi(name[i+6:])
		name = name[:i]
	}
	name = fc.codeName(name)
	var found []*ssa.Alloc
	for _, b := range fc.fn.Blocks {
		for _, ins := range b.Instrs {
			if a, ok := ins.(*ssa.Alloc); ok && a.Comment == name {
				found = append(found, a)
			}
		}
	}
	if len(found) == 0 {
		return nil
	}
	// source order
	for i := 0; i < len(found); i++ {
		for j := i + 1; j < len(found); j++ {
			if found[j].Pos() < found[i].Pos() {
				found[i], found[j] = found[j], found[i]
			}
		}
	}
	if want > 0 {
		if want > len(found) {
			return nil
		}
		return found[want-1]
	}
	if len(found) > 1 {
		panic(unsupported{fmt.Sprintf("local %q is declared %d times; write %s@k", name, len(found), name)})
	}
	return found[0]
}

func (fc *fnCtx) evalExpr(e ast.Expr, ev *evalCtx, text string) Val {
	bad := func(format string, args ...interface{}) Val {
		panic(unsupported{fmt.Sprintf("hole {%s}: %s", text, fmt.Sprintf(format, args...))})
	}
	switch x := e.(type) {
	case *ast.ParenExpr:
		return fc.evalExpr(x.X, ev, text)
	case *ast.BasicLit:
		switch x.Kind {
		case token.INT:
			return Val{T: x.Value, S: "Int", Ty: types.Typ[types.Int]}
		case token.STRING:
			s, _ := strconv.Unquote(x.Value)
			return Val{T: fc.strConst(s), S: "Str", Ty: types.Typ[types.String]}
		}
		return bad("literal %s", x.Value)
	case *ast.Ident:
		name := strings.ReplaceAll(x.Name, "DOLLAR__", "$")
		if v, ok := ev.bind[name]; ok {
			// a name bound by an anchor (a parameter name of the CALLEE) must not shadow a variable of the
			// function under contract: the contract is written from that function's point of view, the
			// callee's arguments are $0, $1, ...
			if !ev.callee && !ev.preferBind && fc.fn != nil && !strings.HasPrefix(name, "$") && !strings.HasPrefix(name, "result") {
				if pv, isParam := fc.params[name]; (!isParam || pv.T != v.T) && fc.hasLocalNamed(name) {
					goto local
				}
			}
			return v
		}
		if name == "$visited" {
			return Val{T: fc.visitedTerm(ev)}
		}
		if strings.HasPrefix(name, "$free") && fc.fn != nil {
			// $free0, $free1, ...: the captured variables of a closure, by position (rename-proof)
			k, err := strconv.Atoi(name[5:])
			if err != nil || k < 0 || k >= len(fc.fn.FreeVars) {
				return bad("no captured variable %s", name)
			}
			fv := fc.fn.FreeVars[k]
			p := fc.val(fv)
			return fc.load(ev.cur, fc.pointerAddr(p, fv.Type().(*types.Pointer).Elem()))
		}
		if g, ok := ev.cur.ghost[name]; ok {
			return g
		}
		if name == "nil" {
			return Val{T: "vnil", S: "V"}
		}
		if name == "true" || name == "false" {
			return Val{T: name, S: "Bool"}
		}
		if ev.callee {
			return bad("%s is not a parameter of the callee", name)
		}
	local:
		a := fc.localAlloc(name)
		if a == nil && strings.HasPrefix(name, "rangeindex") {
			// the loop was written "for i := 0; i < n; i++" instead of "for ... range": the contract's
			// {rangeindex} (index of the last completed iteration) is the induction variable minus one
			if iv := fc.inductionVar(name); iv != nil {
				v := fc.load(ev.cur, &Addr{kind: aCell, cell: iv, typ: iv.Type().(*types.Pointer).Elem()})
				return Val{T: fmt.Sprintf("(- %s 1)", v.T), S: "Int", Ty: types.Typ[types.Int]}
			}
		}
		if a == nil {
			// free variable of a closure
			for _, fv := range fc.fn.FreeVars {
				if fv.Name() == fc.codeName(name) {
					p := fc.val(fv)
					return fc.load(ev.cur, fc.pointerAddr(p, fv.Type().(*types.Pointer).Elem()))
				}
			}
			return bad("unknown name %s", name)
		}
		elem := a.Type().(*types.Pointer).Elem()
		if a.Heap {
			r, ok := fc.env[a].(Val)
			if !ok {
				return Val{T: fc.e.sorts.zero(elem), S: fc.sortOf(elem), Ty: elem}
			}
			return fc.load(ev.cur, fc.pointerAddr(r, elem))
		}
		v := fc.load(ev.cur, &Addr{kind: aCell, cell: a, typ: elem})
		v.Ty = elem
		return v
	case *ast.StarExpr:
		p := fc.evalExpr(x.X, ev, text)
		pt, ok := p.Ty.Underlying().(*types.Pointer)
		if !ok {
			return bad("dereference of non-pointer")
		}
		return fc.load(ev.cur, fc.pointerAddr(p, pt.Elem()))
	case *ast.SelectorExpr:
		b := fc.evalExpr(x.X, ev, text)
		if b.Ty == nil {
			return bad("no Go type for %s", types.ExprString(x.X))
		}
		t := b.Ty
		if pt, ok := t.Underlying().(*types.Pointer); ok {
			stt, ok := pt.Elem().Underlying().(*types.Struct)
			if !ok {
				return bad("selector on pointer to non-struct")
			}
			var base *Addr
			if b.S == "PATH" {
				base = pathAddrs[b.T]
			} else {
				base = fc.pointerAddr(b, pt.Elem())
			}
			for i := 0; i < stt.NumFields(); i++ {
				if stt.Field(i).Name() == x.Sel.Name {
					fa := fc.fieldAddr(base, i)
					if fa.kind == aPath {
						// keep walking: represented as a pseudo value carrying the address
						return Val{T: "PATH", S: "PATH", Ty: types.NewPointer(stt.Field(i).Type())}.withAddr(fa)
					}
					return fc.load(ev.cur, fa)
				}
			}
			return bad("no field %s in %s", x.Sel.Name, typeName(pt.Elem()))
		}
		if stt, ok := t.Underlying().(*types.Struct); ok {
			dt := fc.e.sorts.dts[fc.sortOf(t)]
			if dt == nil {
				return bad("struct %s has no datatype", typeName(t))
			}
			for i := 0; i < stt.NumFields(); i++ {
				if stt.Field(i).Name() == x.Sel.Name {
					return Val{T: fmt.Sprintf("(%s %s)", dt.fields[i].name, b.T), S: dt.fields[i].sort, Ty: stt.Field(i).Type()}
				}
			}
			return bad("no field %s in %s", x.Sel.Name, typeName(t))
		}
		return bad("selector on %s", typeName(t))
	case *ast.IndexExpr:
		b := fc.evalExpr(x.X, ev, text)
		i := fc.evalExpr(x.Index, ev, text)
		if sl, ok := b.Ty.Underlying().(*types.Slice); ok {
			return Val{T: fmt.Sprintf("(select (sarr %s) %s)", b.T, i.T), S: fc.sortOf(sl.Elem()), Ty: sl.Elem()}
		}
		return bad("index on %s", typeName(b.Ty))
	case *ast.CallExpr:
		fn, ok := x.Fun.(*ast.Ident)
		if !ok || len(x.Args) != 1 {
			return bad("unsupported call")
		}
		a := fc.evalExpr(x.Args[0], ev, text)
		switch fn.Name {
		case "len":
			if strings.HasPrefix(a.S, "(Slice") {
				return Val{T: fmt.Sprintf("(slen %s)", a.T), S: "Int", Ty: types.Typ[types.Int]}
			}
			return bad("len of %s", a.S)
		case "dom", "val":
			mt, ok := a.Ty.Underlying().(*types.Map)
			if !ok {
				return bad("%s of non-map", fn.Name)
			}
			dom, val, ds, vs := fc.mapVars(mt)
			if fn.Name == "dom" {
				return Val{T: fmt.Sprintf("(select %s %s)", fc.heapVar(ev.cur, dom, ds), a.T), S: "(Array " + fc.sortOf(mt.Key()) + " Bool)"}
			}
			return Val{T: fmt.Sprintf("(select %s %s)", fc.heapVar(ev.cur, val, vs), a.T), S: "(Array " + fc.sortOf(mt.Key()) + " " + fc.sortOf(mt.Elem()) + ")"}
		case "fdom", "fval":
			mt, ok := a.Ty.Underlying().(*types.Map)
			if !ok {
				return bad("%s of non-map", fn.Name)
			}
			fd, fv := fc.frozenFns(mt)
			if fn.Name == "fdom" {
				return Val{T: fmt.Sprintf("(%s %s)", fd, a.T), S: "(Array " + fc.sortOf(mt.Key()) + " Bool)"}
			}
			return Val{T: fmt.Sprintf("(%s %s)", fv, a.T), S: "(Array " + fc.sortOf(mt.Key()) + " " + fc.sortOf(mt.Elem()) + ")"}
		case "closed":
			return Val{T: fmt.Sprintf("(select %s %s)", fc.heapVar(ev.cur, "ch!closed", "(Array V Bool)"), a.T), S: "Bool"}
		case "full":
			return Val{T: fmt.Sprintf("(select %s %s)", fc.heapVar(ev.cur, "ch!full", "(Array V Bool)"), a.T), S: "Bool"}
		case "sent", "rcvd":
			ct, ok := a.Ty.Underlying().(*types.Chan)
			if !ok {
				return bad("%s of non-channel", fn.Name)
			}
			es := fc.sortOf(ct.Elem())
			hv, hs := fc.seqVar(fn.Name, es)
			return Val{T: fmt.Sprintf("(select %s %s)", fc.heapVar(ev.cur, hv, hs), a.T), S: "(Slice " + es + ")"}
		case "typeof":
			return Val{T: fmt.Sprintf("(dyntype %s)", a.T), S: "GoType"}
		case "allocated":
			return Val{T: fmt.Sprintf("(select %s %s)", fc.heapVar(ev.cur, "alloc", "(Array V Bool)"), a.T), S: "Bool"}
		}
		return bad("unknown function %s", fn.Name)
	}
	return bad("unsupported expression")
}

// pseudo values carrying an address into a big struct (for {p.Spec.NodeName})
var pathAddrs = map[string]*Addr{}

func (v Val) withAddr(a *Addr) Val {
	key := fmt.Sprintf("PATH:%s:%s", a.ref, a.prefix)
	pathAddrs[key] = a
	v.T = key
	return v
}


// declImmutableByName declares the pure function of an immutable field that a contract
// formula mentions by name (|F!<struct type>!<field path>|).
func (fc *fnCtx) declImmutableByName(atom string) {
	if _, ok := fc.heapSort[atom]; ok {
		return
	}
	body := strings.TrimSuffix(strings.TrimPrefix(atom, "|F!"), "|")
	i := strings.Index(body, "!")
	if i < 0 {
		return
	}
	t := fc.e.typeByName[body[:i]]
	if t == nil {
		panic(unsupported{"contract mentions " + atom + ": unknown struct type"})
	}
	for _, f := range strings.Split(body[i+1:], ".") {
		st, ok := t.Underlying().(*types.Struct)
		if !ok {
			panic(unsupported{"contract mentions " + atom + ": not a struct path"})
		}
		var ft types.Type
		for k := 0; k < st.NumFields(); k++ {
			if st.Field(k).Name() == f {
				ft = st.Field(k).Type()
			}
		}
		if ft == nil {
			panic(unsupported{"contract mentions " + atom + ": no field " + f})
		}
		t = ft
	}
	fc.declFun(atom, "(V) "+fc.sortOf(t))
}
