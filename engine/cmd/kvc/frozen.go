package main

// Immutable data: fields declared `immutable` are pure functions of the object
// reference; maps stored in `frozen` fields (or of a `frozen-type`) never change
// once stored, their contents are the pure functions fdom/fval of the map reference.
// The global side of both disciplines (no store / map update elsewhere in /repo)
// is a structural obligation (structural.go).

import (
	"fmt"
	"go/types"
	"strings"
)

func (fc *fnCtx) frozenFns(mt *types.Map) (string, string) {
	ks, vs := fc.sortOf(mt.Key()), fc.sortOf(mt.Elem())
	key := sortKey(ks) + "!" + sortKey(vs)
	fd, fv := "|fdom!"+key+"|", "|fval!"+key+"|"
	if !fc.e.theoryDeclares(fc.theories, fd) {
		fc.declFun(fd, "(V) (Array "+ks+" Bool)")
		fc.declFun(fv, "(V) (Array "+ks+" "+vs+")")
	}
	return fd, fv
}

// freeze: from now on the contents of map m are fdom(m)/fval(m).
func (fc *fnCtx) freeze(st *state, m Val, mt *types.Map) {
	fd, fv := fc.frozenFns(mt)
	dom, val, ds, vs := fc.mapVars(mt)
	fc.assume(st, fmt.Sprintf("(=> (not (= %s vnil)) (and (= (%s %s) (select %s %s)) (= (%s %s) (select %s %s))))", m.T, fd, m.T, fc.heapVar(st, dom, ds), m.T, fv, m.T, fc.heapVar(st, val, vs), m.T))
	fc.assume(st, fmt.Sprintf("(=> (= %s vnil) (forall ((q!k %s)) (not (select (%s %s) q!k))))", m.T, fc.sortOf(mt.Key()), fd, m.T))
		st.frozen[m.T] = mt
}

// thaw: m is known to be frozen; its current contents are fdom(m)/fval(m).
func (fc *fnCtx) thaw(st *state, m Val, mt *types.Map) {
	fd, fv := fc.frozenFns(mt)
	dom, val, ds, vs := fc.mapVars(mt)
	fc.assume(st, fmt.Sprintf("(=> (not (= %s vnil)) (and (= (select %s %s) (%s %s)) (= (select %s %s) (%s %s))))", m.T, fc.heapVar(st, dom, ds), m.T, fd, m.T, fc.heapVar(st, val, vs), m.T, fv, m.T))
	fc.assume(st, fmt.Sprintf("(=> (= %s vnil) (forall ((q!k %s)) (not (select (%s %s) q!k))))", m.T, fc.sortOf(mt.Key()), fd, m.T))
	st.frozen[m.T] = mt
}

// tagFrozenField: v was read from field key (Struct.field).
func (fc *fnCtx) tagFrozenField(st *state, v Val, key string) {
	if !fc.e.db.frozen[key] || v.Ty == nil {
		return
	}
	if mt, ok := v.Ty.Underlying().(*types.Map); ok {
		fc.thaw(st, v, mt)
	}
}

func (fc *fnCtx) freezeField(st *state, v Val, key string) {
	if !fc.e.db.frozen[key] || v.Ty == nil {
		return
	}
	if mt, ok := v.Ty.Underlying().(*types.Map); ok {
		fc.freeze(st, v, mt)
	}
}

func (fc *fnCtx) isFrozenType(t types.Type) (*types.Map, bool) {
	if n, ok := t.(*types.Named); ok && fc.e.db.frozenType[typeName(n)] {
		if mt, ok := n.Underlying().(*types.Map); ok {
			return mt, true
		}
	}
	return nil, false
}

func selKey(s selStep) string {
	if s.dt == nil {
		return ""
	}
	return typeName(s.dt.typ) + "." + strings.TrimPrefix(strings.Trim(s.dt.fields[s.fi].name, "|"), typeName(s.dt.typ)+".")
}
