package main

// Symbolic execution of one function's NaiveForm SSA into guarded SMT
// definitions, assumptions and obligations (DESIGN.md §3.1–3.5).
//
// Control flow is acyclic after cutting loops at their headers; blocks are
// processed in reverse post-order, states are merged with ite at joins, every
// block has a path-condition constant, assumptions are guarded by the path
// condition of the block they were made in, and every assertion becomes one
// query  decls ∧ assumptions-so-far ∧ pc ∧ ¬goal.

import (
	"fmt"
	"go/constant"
	"go/token"
	"go/types"
	"sort"
	"strings"

	"golang.org/x/tools/go/ssa"
)

type Val struct {
	T  string // SMT term
	S  string // SMT sort
	Ty types.Type
}

type addrKind int

const (
	aCell   addrKind = iota // non-escaping local
	aHeap                   // heap variable hv at reference ref
	aPath                   // inside a big struct behind ref, no heap variable yet
	aStruct                 // whole struct behind a pointer
	aElem                   // element of a slice value (read only)
	aImm                    // immutable field of a heap object: pure function of the reference
)

type selStep struct {
	dt    *dtInfo // field step
	fi    int
	index string // index step (array)
	esort string
}

type Addr struct {
	kind   addrKind
	cell   *ssa.Alloc
	ref    string
	hv     string
	hsort  string
	prefix string
	sel    []selStep
	typ    types.Type
	slice  Val
	idx    string
	rebind  *Addr  // aElem: the local variable holding the slice (an element store rebinds it)
	foreign string // aElem: the slice comes from outside the function (see foreignSlice)
	meta   bool // interior pointer to an embedded ObjectMeta: as a value it is the outer reference
}

type unsupported struct{ msg string }

func unsup(format string, args ...interface{}) {
	panic(unsupported{fmt.Sprintf(format, args...)})
}

type state struct {
	cells  map[*ssa.Alloc]Val
	heap   map[string]Val
	ghost  map[string]Val
	pc     string
	defers []*ssa.Defer
	frozen map[string]*types.Map // map references known to be immutable on this path
}

func (s *state) clone() *state {
	c := &state{cells: make(map[*ssa.Alloc]Val, len(s.cells)), heap: make(map[string]Val, len(s.heap)), ghost: make(map[string]Val, len(s.ghost)), pc: s.pc}
	for k, v := range s.cells {
		c.cells[k] = v
	}
	for k, v := range s.heap {
		c.heap[k] = v
	}
	for k, v := range s.ghost {
		c.ghost[k] = v
	}
	c.defers = append([]*ssa.Defer{}, s.defers...)
	c.frozen = map[string]*types.Map{}
	for k, v := range s.frozen {
		c.frozen[k] = v
	}
	return c
}

type oblig struct {
	name     string
	kind     string // post, inv-entry, inv-preserve, requires, safety, at, frame, cover, lemma, structural
	fn       string
	goal     string
	pc       string
	nassume  int
	clause   string // source text of the clause
	pos      string
	props    []string
	result   string // unsat / sat / unknown / timeout / error
	solver   string
	secs     float64
	model    string
	query    string
	tpos     token.Pos
	wantSat  bool // cover/vacuity obligations: expected NOT unsat
	trivial  bool
	baseline bool
	alsoUnsat []string // other solvers that also answered unsat (thorough tier cross-check)
	thoroughOnly bool // cover probes generated everywhere but discharged only in the thorough tier
	prebaked bool // verdict decided by the generator (structural / unmapped): not sent to a solver
}

type closureInfo struct {
	fn       *ssa.Function
	bindings []interface{}
}

type rangeInfo struct {
	m       Val
	visited string // ghost name
	mtype   *types.Map
}

type fnCtx struct {
	nret     int
	e        *engine
	fn       *ssa.Function
	blk      *block
	name     string
	decls    []string
	assumes  []string
	obligs   []*oblig
	env      map[ssa.Value]interface{}
	nfresh   int
	strs     map[string]bool
	tys      map[string]types.Type
	ifaces   map[string]*types.Interface
	heapSort map[string]string
	boxes    map[string]string // box name -> payload sort
	entry    *state
	params   map[string]Val
	closures map[string]*closureInfo
	prov     map[string]string // term -> "Struct.field" provenance of loaded references
	siteN    map[string]int
	trusted  map[string]bool // assumed contracts / opaque callees used
	anchorsHit map[*clause]int
	loopsOf  map[*ssa.BasicBlock]int // header -> ordinal
	curBlock *ssa.BasicBlock
	theories map[string]bool
	notes    []string
	spawns   []string
	tyNames  map[string]bool
	rangeOf  map[*ssa.Range]*rangeInfo
	selIdx   map[*ssa.Select]string
	sitePos  map[string][]token.Pos
	linearCells map[*ssa.Alloc]bool
	implBlocks []*block
	lastVisited string
	prefix string
	callOf map[string]string
	retHook func(st *state, r *ssa.Return)
	inlineDepth int
	inlineStack []*ssa.Function
	aliasOf map[string]Val
	anchorsSeen map[*clause]int
	curState *state // the state of the instruction being executed (for obligations raised from value lookups)
	alias    map[string]string // contract name of a local -> name of the (renamed) variable in the code
	noDef    bool // terms under a quantifier: no top-level abbreviations
	aliasOff map[string]string // offset of a reslice x[lo:..] in its source
	aliasCell map[*ssa.Alloc]Val
	freshRefs map[string]bool
	frozenTag map[string]*types.Map
	frozenNow map[string]bool
	unmappedClauses map[*clause]bool
	allocFacts map[string]bool
	allowedLocs map[string][]string
	modsOf map[*ssa.BasicBlock]modSet
}

func (fc *fnCtx) fresh(prefix, sort string) string {
	fc.nfresh++
	n := fmt.Sprintf("%s!%d", prefix, fc.nfresh)
	fc.decls = append(fc.decls, fmt.Sprintf("(declare-fun %s () %s)", n, sort))
	return n
}

func (fc *fnCtx) def(sort, term string) string {
	if len(term) < 48 || fc.noDef {
		return term
	}
	fc.nfresh++
	n := fmt.Sprintf("d!%d", fc.nfresh)
	fc.decls = append(fc.decls, fmt.Sprintf("(define-fun %s () %s %s)", n, sort, term))
	return n
}

func (fc *fnCtx) assume(st *state, h string) {
	if st.pc == "true" {
		fc.assumes = append(fc.assumes, h)
	} else {
		fc.assumes = append(fc.assumes, fmt.Sprintf("(=> %s %s)", st.pc, h))
	}
}

func (fc *fnCtx) site(key string) int {
	fc.siteN[key]++
	return fc.siteN[key]
}

func (fc *fnCtx) assert(st *state, kind, name, goal, clauseSrc string, pos token.Pos) *oblig {
	o := &oblig{name: fc.name + "/" + name, kind: kind, fn: fc.name, goal: goal, pc: st.pc, nassume: len(fc.assumes), clause: clauseSrc}
	o.tpos = pos
	if pos.IsValid() {
		p := fc.e.fset.Position(pos)
		o.pos = fmt.Sprintf("%s:%d", p.Filename, p.Line)
	}
	if fc.blk != nil {
		o.props = fc.blk.props
	}
	if goal == "true" {
		o.trivial = true
	}
	fc.obligs = append(fc.obligs, o)
	return o
}

func (fc *fnCtx) sortOf(t types.Type) string {
	s := fc.e.sorts.sortOf(t)
	return s
}

func (fc *fnCtx) strConst(s string) string {
	c := strConst(s)
	fc.strs[c] = true
	return c
}

func (fc *fnCtx) tyConst(t types.Type) string {
	c := tyConst(t)
	fc.tys[c] = t
	return c
}

// heapVar returns the current term of a heap variable, declaring it on first use.
func (fc *fnCtx) heapVar(st *state, hv, sort string) string {
	if _, ok := fc.heapSort[hv]; !ok {
		fc.heapSort[hv] = sort
		fc.decls = append(fc.decls, fmt.Sprintf("(declare-fun %s () %s)", hv, sort))
	}
	if v, ok := st.heap[hv]; ok {
		return v.T
	}
	return hv
}

func (fc *fnCtx) setHeap(st *state, hv, sort, term string) {
	fc.heapVar(st, hv, sort)
	st.heap[hv] = Val{T: fc.def(sort, term), S: sort}
}

// ---- addresses -------------------------------------------------------------

func (fc *fnCtx) pointerAddr(p Val, elem types.Type) *Addr {
	if _, ok := elem.Underlying().(*types.Struct); ok {
		return &Addr{kind: aStruct, ref: p.T, typ: elem}
	}
	s := fc.sortOf(elem)
	return &Addr{kind: aHeap, ref: p.T, hv: "|Hcell!" + sortKey(s) + "|", hsort: s, typ: elem}
}

func (fc *fnCtx) asAddr(v ssa.Value) *Addr {
	x := fc.env[v]
	switch a := x.(type) {
	case *Addr:
		return a
	case Val:
		pt, ok := v.Type().Underlying().(*types.Pointer)
		if !ok {
			unsup("address of non-pointer %s", v)
		}
		return fc.pointerAddr(a, pt.Elem())
	}
	if _, ok := v.(*ssa.Const); ok {
		unsup("nil pointer dereference of constant %s", v)
	}
	if g, ok := v.(*ssa.Global); ok {
		// address of a package-level variable: a heap cell named after the global
		s := fc.sortOf(g.Type().(*types.Pointer).Elem())
		if s == "BIG" {
			unsup("global %s of big struct type", g.Name())
		}
		ref := "|glob!" + trimPath(g.Pkg.Pkg.Path()) + "." + g.Name() + "|"
		if _, seen := fc.heapSort[ref]; !seen {
			fc.declOnce(ref, "V")
			fc.assumes = append(fc.assumes, fmt.Sprintf("(and (not (= %s vnil)) (select alloc %s))", ref, ref))
		}
		gname := trimPath(g.Pkg.Pkg.Path()) + "." + g.Name()
		if fc.e.db.nonnilGlobal[gname] && s == "V" {
			// initialised once by the package initialiser with a non-nil value, never reassigned
			// (structural obligation nonnil-global.*): reads see that value
			fn := "|G!" + gname + "|"
			if _, seen := fc.heapSort[fn]; !seen {
				fc.declOnce(fn, "V")
				fc.assumes = append(fc.assumes, fmt.Sprintf("(and (not (= %s vnil)) (select alloc %s))", fn, fn))
			}
			return &Addr{kind: aImm, ref: ref, hv: "|Gval!" + gname + "|", hsort: "V", typ: g.Type().(*types.Pointer).Elem(), prefix: "global." + gname}
		}
		return &Addr{kind: aHeap, ref: ref, hv: "|Hcell!" + sortKey(s) + "|", hsort: s, typ: g.Type().(*types.Pointer).Elem()}
	}
	if fv, ok := v.(*ssa.FreeVar); ok {
		_ = fv
	}
	unsup("no address for %s (%T)", v, v)
	return nil
}

func (fc *fnCtx) declOnce(name, sort string) {
	if _, ok := fc.heapSort[name]; ok {
		return
	}
	fc.heapSort[name] = sort
	fc.decls = append(fc.decls, fmt.Sprintf("(declare-fun %s () %s)", name, sort))
}

func (fc *fnCtx) fieldAddr(base *Addr, i int) *Addr {
	st, ok := base.typ.Underlying().(*types.Struct)
	if !ok {
		unsup("field of non-struct %s", base.typ)
	}
	f := st.Field(i)
	ft := f.Type()
	_, fIsStruct := ft.Underlying().(*types.Struct)
	isDT := fIsStruct && fc.e.sorts.isDatatype(ft)
	switch base.kind {
	case aStruct, aPath:
		var name string
		if base.kind == aStruct {
			name = typeName(base.typ) + "!" + f.Name()
		} else {
			name = base.prefix + "." + f.Name()
		}
		if fIsStruct && !isDT {
			return &Addr{kind: aPath, ref: base.ref, prefix: name, typ: ft, meta: f.Embedded() && f.Name() == "ObjectMeta"}
		}
		s := fc.sortOf(ft)
		if key := strings.Replace(name, "!", ".", 1); fc.e.db.immutable[key] {
			fn := "|F!" + name + "|"
			fc.declFun(fn, "(V) "+s)
			return &Addr{kind: aImm, ref: base.ref, hv: fn, hsort: s, typ: ft, prefix: key, meta: f.Embedded() && f.Name() == "ObjectMeta"}
		}
		return &Addr{kind: aHeap, ref: base.ref, hv: "|H!" + name + "|", hsort: s, typ: ft, meta: f.Embedded() && f.Name() == "ObjectMeta"}
	case aHeap, aCell, aElem, aImm:
		ds := fc.sortOf(base.typ)
		dt := fc.e.sorts.dts[ds]
		if dt == nil {
			unsup("field %s of struct %s that has no datatype (too big)", f.Name(), typeName(base.typ))
		}
		n := *base
		n.sel = append(append([]selStep{}, base.sel...), selStep{dt: dt, fi: i})
		n.typ = ft
		n.meta = false
		return &n
	}
	unsup("fieldAddr")
	return nil
}

func (fc *fnCtx) applySel(base string, sel []selStep) string {
	for _, s := range sel {
		if s.dt != nil {
			base = fmt.Sprintf("(%s %s)", s.dt.fields[s.fi].name, base)
		} else {
			base = fmt.Sprintf("(select %s %s)", base, s.index)
		}
	}
	return base
}

func (fc *fnCtx) updateSel(base string, sel []selStep, v string) string {
	if len(sel) == 0 {
		return v
	}
	s := sel[0]
	inner := fc.updateSel(fc.applySel(base, sel[:1]), sel[1:], v)
	if s.dt != nil {
		parts := []string{s.dt.ctor}
		for j, f := range s.dt.fields {
			if j == s.fi {
				parts = append(parts, inner)
			} else {
				parts = append(parts, fmt.Sprintf("(%s %s)", f.name, base))
			}
		}
		return "(" + strings.Join(parts, " ") + ")"
	}
	return fmt.Sprintf("(store %s %s %s)", base, s.index, inner)
}

func (fc *fnCtx) load(st *state, a *Addr) Val {
	v := fc.load0(st, a)
	if n := len(a.sel); n > 0 && a.sel[n-1].dt != nil && v.S == "V" {
		v.Ty = a.typ
		fc.tagFrozenField(st, v, selKey(a.sel[n-1]))
	}
	return v
}

func (fc *fnCtx) load0(st *state, a *Addr) Val {
	s := fc.sortOf(a.typ)
	switch a.kind {
	case aCell:
		base, ok := st.cells[a.cell]
		if !ok {
			cs := fc.sortOf(a.cell.Type().(*types.Pointer).Elem())
			if cs == "BIG" {
				unsup("load from local of big struct type %s", typeName(a.cell.Type()))
			}
			base = Val{T: fc.e.sorts.zeroOfSort(cs), S: cs}
		}
		return Val{T: fc.applySel(base.T, a.sel), S: s, Ty: a.typ}
	case aHeap:
		h := fc.heapVar(st, a.hv, "(Array V "+a.hsort+")")
		t := fc.applySel(fmt.Sprintf("(select %s %s)", h, a.ref), a.sel)
		v := Val{T: t, S: s, Ty: a.typ}
		if s == "V" && len(a.sel) == 0 {
			fc.prov[t] = strings.Trim(a.hv, "|")
			// memory model: a reference read from the heap is nil or allocated
			al := fc.heapVar(st, "alloc", "(Array V Bool)")
			key := t + "@" + al
			if !fc.allocFacts[key] {
				fc.allocFacts[key] = true
				fc.assumes = append(fc.assumes, fmt.Sprintf("(or (= %s vnil) (select %s %s))", t, al, t))
			}
		}
		return v
	case aElem:
		t := fc.applySel(fmt.Sprintf("(select (sarr %s) %s)", a.slice.T, a.idx), a.sel)
		return Val{T: t, S: s, Ty: a.typ}
	case aImm:
		if strings.HasPrefix(a.prefix, "global.") {
			g := "|G!" + strings.TrimPrefix(a.prefix, "global.") + "|"
			return Val{T: g, S: "V", Ty: a.typ}
		}
		t := fc.applySel(fmt.Sprintf("(%s %s)", a.hv, a.ref), a.sel)
		v := Val{T: t, S: s, Ty: a.typ}
		fc.typeFacts(st, v)
		if len(a.sel) == 0 {
			fc.tagFrozenField(st, v, a.prefix)
			if s == "V" {
				fc.prov[t] = "H!" + strings.TrimPrefix(strings.Trim(a.hv, "|"), "F!")
				al := fc.heapVar(st, "alloc", "(Array V Bool)")
				key := t + "@" + al
				if !fc.allocFacts[key] {
					fc.allocFacts[key] = true
					fc.assumes = append(fc.assumes, fmt.Sprintf("(or (= %s vnil) (select %s %s))", t, al, t))
				}
			}
		}
		return v
	case aStruct:
		if s == "BIG" {
			unsup("load of whole big struct %s", typeName(a.typ))
		}
		dt := fc.e.sorts.dts[s]
		parts := []string{dt.ctor}
		for i := range dt.fields {
			parts = append(parts, fc.load(st, fc.fieldAddr(a, i)).T)
		}
		if len(dt.fields) == 0 {
			return Val{T: dt.ctor, S: s, Ty: a.typ}
		}
		return Val{T: "(" + strings.Join(parts, " ") + ")", S: s, Ty: a.typ}
	case aPath:
		unsup("load of big struct at %s", a.prefix)
	}
	return Val{}
}

func (fc *fnCtx) store(st *state, a *Addr, v Val) {
	if n := len(a.sel); n > 0 && a.sel[n-1].dt != nil && v.S == "V" {
		v.Ty = a.typ
		fc.freezeField(st, v, selKey(a.sel[n-1]))
	}
	switch a.kind {
	case aCell:
		cs := fc.sortOf(a.cell.Type().(*types.Pointer).Elem())
		if cs == "BIG" {
			unsup("store to local of big struct type")
		}
		base, ok := st.cells[a.cell]
		if !ok {
			base = Val{T: fc.e.sorts.zeroOfSort(cs), S: cs}
		}
		st.cells[a.cell] = Val{T: fc.def(cs, fc.updateSel(base.T, a.sel, v.T)), S: cs}
	case aHeap:
		hs := "(Array V " + a.hsort + ")"
		h := fc.heapVar(st, a.hv, hs)
		nv := v.T
		if len(a.sel) > 0 {
			nv = fc.updateSel(fmt.Sprintf("(select %s %s)", h, a.ref), a.sel, v.T)
		}
		fc.setHeap(st, a.hv, hs, fmt.Sprintf("(store %s %s %s)", h, a.ref, nv))
	case aStruct:
		s := fc.sortOf(a.typ)
		dt := fc.e.sorts.dts[s]
		if dt == nil {
			unsup("store of whole big struct %s", typeName(a.typ))
		}
		for i, f := range dt.fields {
			fc.store(st, fc.fieldAddr(a, i), Val{T: fmt.Sprintf("(%s %s)", f.name, v.T), S: f.sort, Ty: f.typ})
		}
	case aImm:
		if !fc.freshRefs[a.ref] {
			unsup("store to immutable field %s of an object not allocated in this function", a.prefix)
		}
		fc.assume(st, fmt.Sprintf("(= %s %s)", fc.applySel(fmt.Sprintf("(%s %s)", a.hv, a.ref), a.sel), v.T))
		fc.freezeField(st, v, a.prefix)
	case aElem:
		if a.foreign != "" {
			// a write into the backing array of a slice this function did not create: visible to every other
			// holder of the slice (slices are values in this model, so the write itself is not represented;
			// it is excluded by this obligation instead)
			fc.assert(st, "frame", fmt.Sprintf("frame.store-into-a-slice-not-created-here#%d", fc.site("frame.elemstore")), "false",
				"assignment to an element of a slice obtained from "+a.foreign+": the backing array is shared with its other holders", token.NoPos)
			return
		}
		if a.rebind != nil {
			// x[i] = v on a slice this function created and holds in a local variable: the variable is rebound to
			// the updated slice value (other variables sharing the backing array are not updated: slices are values)
			cur := fc.load(st, a.rebind)
			if cur.T == a.slice.T {
				nv := Val{T: fc.def(cur.S, fmt.Sprintf("((as mkslice %s) (store (sarr %s) %s %s) (slen %s))", cur.S, cur.T, a.idx, v.T, cur.T)), S: cur.S, Ty: cur.Ty}
				fc.store(st, a.rebind, nv)
				fc.trusted["element assignment to a locally created slice rebinds the variable holding it (no other alias of the backing array is updated)"] = true
				return
			}
		}
		unsup("store through slice element (slice aliasing is not modelled)")
	case aPath:
		unsup("store of big struct at %s", a.prefix)
	}
}

// addrAsVal turns an interior pointer into a reference value.
func (fc *fnCtx) addrAsVal(a *Addr, t types.Type) Val {
	switch a.kind {
	case aStruct:
		return Val{T: a.ref, S: "V", Ty: t}
	case aImm:
		if a.meta && len(a.sel) == 0 {
			return Val{T: a.ref, S: "V", Ty: t} // &obj.ObjectMeta of an API object: identified with the object (as for heap fields)
		}
	case aPath, aHeap:
		if a.meta && len(a.sel) == 0 {
			return Val{T: a.ref, S: "V", Ty: t}
		}
		name := a.prefix
		if a.kind == aHeap {
			name = strings.Trim(a.hv, "|")
		}
		fn := "|iptr!" + name + "|"
		fc.declFun(fn, "(V) V")
		return Val{T: fmt.Sprintf("(%s %s)", fn, a.ref), S: "V", Ty: t}
	}
	unsup("address of a local or slice element escapes as a value")
	return Val{}
}

func (fc *fnCtx) declFun(name, sig string) {
	if _, ok := fc.heapSort[name]; ok {
		return
	}
	fc.heapSort[name] = sig
	if fc.e.theoryDeclares(fc.theories, name) {
		return
	}
	// sig "(A B) R"
	i := strings.LastIndex(sig, ")")
	fc.decls = append(fc.decls, fmt.Sprintf("(declare-fun %s %s %s)", name, sig[:i+1], strings.TrimSpace(sig[i+1:])))
}

// ---- values ------------------------------------------------------------------

func (fc *fnCtx) val(v ssa.Value) Val {
	switch c := v.(type) {
	case *ssa.Const:
		return fc.constVal(c)
	case *ssa.Function:
		name := "|fn!" + canonName(c) + "|"
		if _, seen := fc.heapSort[name]; !seen {
			fc.declOnce(name, "V")
			fc.assumes = append(fc.assumes, fmt.Sprintf("(not (= %s vnil))", name))
		}
		return Val{T: name, S: "V", Ty: c.Type()}
	case *ssa.Global:
		if c.Pkg != nil && strings.HasPrefix(c.Pkg.Pkg.Path(), "github.com/boz/kcache") && fc.curState != nil {
			// the address of a package-level variable of the library is taken (e.g. a method call on a package-level
			// cache): state shared between calls, which no function under contract is specified to use.  A failed
			// frame obligation, not an unsupported construct.
			key := "frame.package-level-state." + c.Name()
			if !fc.allocFacts[key] {
				fc.allocFacts[key] = true
				fc.assert(fc.curState, "frame", key, "false",
					"the function uses the package-level variable "+c.Name()+": state shared between calls, outside every contract's frame", token.NoPos)
			}
			return Val{T: fc.fresh("global!"+sanitize(c.Name()), "V"), S: "V", Ty: c.Type()}
		}
		unsup("global %s used as value", c.Name())
	case *ssa.Builtin:
		unsup("builtin %s used as value", c.Name())
	}
	x, ok := fc.env[v]
	if !ok {
		unsup("no value for %s = %s", v.Name(), v)
	}
	switch a := x.(type) {
	case Val:
		return a
	case *Addr:
		return fc.addrAsVal(a, v.Type())
	case []Val:
		unsup("tuple %s used as value", v.Name())
	}
	unsup("bad env entry for %s", v.Name())
	return Val{}
}

func (fc *fnCtx) constVal(c *ssa.Const) Val {
	s := fc.sortOf(c.Type())
	if c.Value == nil {
		if s == "BIG" {
			unsup("zero constant of big struct type")
		}
		return Val{T: fc.e.sorts.zeroOfSort(s), S: s, Ty: c.Type()}
	}
	switch c.Value.Kind() {
	case constant.Bool:
		return Val{T: fmt.Sprint(constant.BoolVal(c.Value)), S: "Bool", Ty: c.Type()}
	case constant.Int:
		if s == "Real" {
			return Val{T: numLit(c.Value.ExactString()) + ".0", S: s, Ty: c.Type()}
		}
		return Val{T: numLit(c.Value.ExactString()), S: "Int", Ty: c.Type()}
	case constant.Float:
		f, _ := constant.Float64Val(c.Value)
		if s == "Int" {
			return Val{T: numLit(fmt.Sprintf("%d", int64(f))), S: s, Ty: c.Type()}
		}
		r := c.Value.ExactString() // may be a fraction a/b
		if strings.Contains(r, "/") {
			p := strings.SplitN(r, "/", 2)
			return Val{T: fmt.Sprintf("(/ %s.0 %s.0)", p[0], p[1]), S: "Real", Ty: c.Type()}
		}
		return Val{T: numLit(r) + ".0", S: "Real", Ty: c.Type()}
	case constant.String:
		return Val{T: fc.strConst(constant.StringVal(c.Value)), S: "Str", Ty: c.Type()}
	}
	unsup("constant %s", c)
	return Val{}
}

func numLit(s string) string {
	if strings.HasPrefix(s, "-") {
		return "(- " + s[1:] + ")"
	}
	return s
}

func (fc *fnCtx) freshVal(st *state, prefix string, t types.Type) Val {
	s := fc.sortOf(t)
	if s == "BIG" {
		unsup("value of big struct type %s", typeName(t))
	}
	v := Val{T: fc.fresh(prefix, s), S: s, Ty: t}
	fc.typeFacts(st, v)
	return v
}

func (fc *fnCtx) typeFacts(st *state, v Val) {
	if strings.HasPrefix(v.S, "(Slice ") {
		fc.assume(st, fmt.Sprintf("(>= (slen %s) 0)", v.T))
		return
	}
	if dt, ok := fc.e.sorts.dts[v.S]; ok {
		for _, f := range dt.fields {
			if strings.HasPrefix(f.sort, "(Slice ") || fc.e.sorts.dts[f.sort] != nil {
				fc.typeFacts(st, Val{T: fmt.Sprintf("(%s %s)", f.name, v.T), S: f.sort})
			}
		}
	}
}

// ---- merging -------------------------------------------------------------------

type inEdge struct {
	st   *state
	cond string // full edge condition (includes the predecessor's pc)
}

func (fc *fnCtx) merge(ins []inEdge) *state {
	if len(ins) == 1 {
		st := ins[0].st.clone()
		st.pc = ins[0].cond
		return st
	}
	conds := make([]string, len(ins))
	for i, e := range ins {
		conds[i] = e.cond
	}
	out := ins[0].st.clone()
	fc.nfresh++
	pc := fmt.Sprintf("pc!%d", fc.nfresh)
	fc.decls = append(fc.decls, fmt.Sprintf("(define-fun %s () Bool (or %s))", pc, strings.Join(conds, " ")))
	out.pc = pc
	mergeVals := func(get func(*state) (Val, bool)) (Val, bool) {
		var vals []Val
		var cs []string
		same := true
		for i, e := range ins {
			v, ok := get(e.st)
			if !ok {
				continue
			}
			if len(vals) > 0 && vals[0].T != v.T {
				same = false
			}
			vals = append(vals, v)
			cs = append(cs, conds[i])
		}
		if len(vals) == 0 {
			return Val{}, false
		}
		if same {
			return vals[0], true
		}
		t := vals[len(vals)-1].T
		for i := len(vals) - 2; i >= 0; i-- {
			t = fmt.Sprintf("(ite %s %s %s)", cs[i], vals[i].T, t)
		}
		fc.nfresh++
		n := fmt.Sprintf("m!%d", fc.nfresh)
		fc.decls = append(fc.decls, fmt.Sprintf("(define-fun %s () %s %s)", n, vals[0].S, t))
		return Val{T: n, S: vals[0].S, Ty: vals[0].Ty}, true
	}
	cellKeys := map[*ssa.Alloc]bool{}
	heapKeys := map[string]bool{}
	ghostKeys := map[string]bool{}
	for _, e := range ins {
		for k := range e.st.cells {
			cellKeys[k] = true
		}
		for k := range e.st.heap {
			heapKeys[k] = true
		}
		for k := range e.st.ghost {
			ghostKeys[k] = true
		}
	}
	// deterministic order
	var cells []*ssa.Alloc
	for k := range cellKeys {
		cells = append(cells, k)
	}
	sort.Slice(cells, func(i, j int) bool { return cells[i].Pos() < cells[j].Pos() || cells[i].Pos() == cells[j].Pos() && cells[i].Name() < cells[j].Name() })
	for _, k := range cells {
		k := k
		if v, ok := mergeVals(func(s *state) (Val, bool) { v, ok := s.cells[k]; return v, ok }); ok {
			out.cells[k] = v
		}
	}
	for _, k := range sortedKeys(heapKeys) {
		k := k
		srt := fc.heapSort[k]
		if v, ok := mergeVals(func(s *state) (Val, bool) {
			if v, ok := s.heap[k]; ok {
				return v, true
			}
			return Val{T: k, S: srt}, true
		}); ok {
			out.heap[k] = v
		}
	}
	for _, k := range sortedKeys(ghostKeys) {
		k := k
		if v, ok := mergeVals(func(s *state) (Val, bool) { v, ok := s.ghost[k]; return v, ok }); ok {
			out.ghost[k] = v
		}
	}
	for _, e := range ins[1:] {
		for k, v := range e.st.frozen {
			out.frozen[k] = v
		}
	}
	// defers must agree
	for _, e := range ins[1:] {
		if len(e.st.defers) != len(out.defers) {
			unsup("paths with different deferred calls merge")
		}
	}
	return out
}

// ---- CFG helpers ------------------------------------------------------------------

func isBackEdge(from, to *ssa.BasicBlock) bool { return to.Dominates(from) }

func rpo(fn *ssa.Function) []*ssa.BasicBlock {
	seen := map[*ssa.BasicBlock]bool{}
	var post []*ssa.BasicBlock
	var visit func(b *ssa.BasicBlock)
	visit = func(b *ssa.BasicBlock) {
		seen[b] = true
		for _, s := range b.Succs {
			if !seen[s] && !isBackEdge(b, s) {
				visit(s)
			}
		}
		post = append(post, b)
	}
	visit(fn.Blocks[0])
	if fn.Recover != nil && !seen[fn.Recover] {
		// recover block is not executed symbolically
	}
	for i, j := 0, len(post)-1; i < j; i, j = i+1, j-1 {
		post[i], post[j] = post[j], post[i]
	}
	return post
}

// loopBlocks returns the natural loop of header h.
func loopBlocks(h *ssa.BasicBlock) map[*ssa.BasicBlock]bool {
	in := map[*ssa.BasicBlock]bool{h: true}
	var stack []*ssa.BasicBlock
	for _, p := range h.Preds {
		if isBackEdge(p, h) && !in[p] {
			in[p] = true
			stack = append(stack, p)
		}
	}
	for len(stack) > 0 {
		b := stack[len(stack)-1]
		stack = stack[:len(stack)-1]
		for _, p := range b.Preds {
			if !in[p] {
				in[p] = true
				stack = append(stack, p)
			}
		}
	}
	return in
}

func loopHeaders(fn *ssa.Function) []*ssa.BasicBlock {
	var hs []*ssa.BasicBlock
	for _, b := range fn.Blocks {
		for _, p := range b.Preds {
			if isBackEdge(p, b) {
				hs = append(hs, b)
				break
			}
		}
	}
	sort.Slice(hs, func(i, j int) bool { return hs[i].Index < hs[j].Index })
	return hs
}

func canonName(fn *ssa.Function) string {
	s := fn.RelString(nil)
	return trimPath(s)
}
