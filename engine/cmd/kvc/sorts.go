package main

// Go types -> SMT sorts (DESIGN.md §3.3).
//
//   bool -> Bool; integers -> Int (mathematical); floats -> Real; string -> Str (uninterpreted)
//   pointers, interfaces, maps, channels, funcs -> V (one reference sort, nil = vnil)
//   small structs -> datatypes |S!pkg.T|; slices -> (Slice T); arrays -> (Array Int T)

import (
	"fmt"
	"go/types"
	"sort"
	"strings"
)

var pathTrim = []struct{ from, to string }{
	{"github.com/boz/kcache/", ""},
	{"github.com/boz/kcache", "kcache"},
	{"k8s.io/apimachinery/pkg/apis/", ""},
	{"k8s.io/apimachinery/pkg/", ""},
	{"k8s.io/api/", ""},
	{"k8s.io/client-go/", "client-go/"},
	{"github.com/boz/", ""},
	{"github.com/pkg/", ""},
}

func trimPath(s string) string {
	for _, t := range pathTrim {
		s = strings.ReplaceAll(s, t.from, t.to)
	}
	return s
}

func qualifier(p *types.Package) string { return trimPath(p.Path()) }

func typeName(t types.Type) string {
	s := types.TypeString(t, qualifier)
	s = strings.ReplaceAll(s, "|", "!")
	return s
}

type dtField struct {
	name string
	sort string
	typ  types.Type
}

type dtInfo struct {
	name   string // |S!pkg.T|
	ctor   string
	fields []dtField
	typ    types.Type
}

type sortReg struct {
	dts     map[string]*dtInfo
	order   []*dtInfo
	big     map[string]bool // type names found too big for a datatype
	pending map[string]bool
	zarrs   map[string]string
}

func newSortReg() *sortReg {
	return &sortReg{dts: map[string]*dtInfo{}, big: map[string]bool{}, pending: map[string]bool{}, zarrs: map[string]string{}}
}

const maxLeaves = 24

// leaves counts flattened leaf fields of a struct; -1 if unsupported.
func (r *sortReg) leaves(t types.Type, depth int) int {
	if depth > 6 {
		return -1
	}
	switch u := t.Underlying().(type) {
	case *types.Struct:
		n := 0
		for i := 0; i < u.NumFields(); i++ {
			k := r.leaves(u.Field(i).Type(), depth+1)
			if k < 0 {
				return -1
			}
			n += k
			if n > maxLeaves {
				return -1
			}
		}
		return n
	case *types.Array:
		return -1
	default:
		return 1
	}
}

func (r *sortReg) isDatatype(t types.Type) bool {
	if _, ok := t.Underlying().(*types.Struct); !ok {
		return false
	}
	return r.leaves(t, 0) >= 0
}

func (r *sortReg) sortOf(t types.Type) string {
	switch u := t.Underlying().(type) {
	case *types.Basic:
		switch {
		case u.Info()&types.IsBoolean != 0:
			return "Bool"
		case u.Info()&types.IsInteger != 0:
			return "Int"
		case u.Info()&types.IsFloat != 0:
			return "Real"
		case u.Info()&types.IsString != 0:
			return "Str"
		case u.Kind() == types.UntypedNil:
			return "V"
		case u.Kind() == types.UnsafePointer:
			return "V"
		}
		return "V"
	case *types.Pointer, *types.Interface, *types.Map, *types.Chan, *types.Signature:
		return "V"
	case *types.Slice:
		return "(Slice " + r.sortOf(u.Elem()) + ")"
	case *types.Array:
		return "(Array Int " + r.sortOf(u.Elem()) + ")"
	case *types.Struct:
		return r.structSort(t, u)
	case *types.Tuple:
		return "TUPLE"
	}
	return "V"
}

func (r *sortReg) structSort(t types.Type, u *types.Struct) string {
	tn := typeName(t)
	name := "|S!" + tn + "|"
	if _, ok := r.dts[name]; ok {
		return name
	}
	if !r.isDatatype(t) {
		r.big[tn] = true
		return "BIG"
	}
	if r.pending[name] {
		return name
	}
	r.pending[name] = true
	info := &dtInfo{name: name, ctor: "|mk!" + tn + "|", typ: t}
	for i := 0; i < u.NumFields(); i++ {
		f := u.Field(i)
		info.fields = append(info.fields, dtField{name: "|" + tn + "." + f.Name() + "|", sort: r.sortOf(f.Type()), typ: f.Type()})
	}
	r.dts[name] = info
	r.order = append(r.order, info) // dependencies were registered by the recursive sortOf calls first
	delete(r.pending, name)
	return name
}

func (r *sortReg) decls() string {
	var sb strings.Builder
	for _, d := range r.order {
		if len(d.fields) == 0 {
			fmt.Fprintf(&sb, "(declare-datatypes ((%s 0)) (((%s))))\n", d.name, d.ctor)
			continue
		}
		fmt.Fprintf(&sb, "(declare-datatypes ((%s 0)) (((%s", d.name, d.ctor)
		for _, f := range d.fields {
			fmt.Fprintf(&sb, " (%s %s)", f.name, f.sort)
		}
		sb.WriteString("))))\n")
	}
	zs := make([]string, 0, len(r.zarrs))
	for z := range r.zarrs {
		zs = append(zs, z)
	}
	sort.Strings(zs)
	for _, z := range zs {
		fmt.Fprintf(&sb, "(declare-fun %s () %s)\n", z, r.zarrs[z])
	}
	return sb.String()
}

func (r *sortReg) zero(t types.Type) string {
	return r.zeroOfSort(r.sortOf(t))
}

func (r *sortReg) zeroOfSort(s string) string {
	switch s {
	case "Bool":
		return "false"
	case "Int":
		return "0"
	case "Real":
		return "0.0"
	case "Str":
		return "|str!|"
	case "V":
		return "vnil"
	}
	if strings.HasPrefix(s, "(Slice ") {
		el := s[7 : len(s)-1]
		return fmt.Sprintf("((as mkslice %s) %s 0)", s, r.zeroOfSort("(Array Int "+el+")"))
	}
	if strings.HasPrefix(s, "(Array ") {
		// zero-filled array: a declared constant (cvc5 rejects const arrays of non-values); its
		// elements are left unconstrained, which only weakens what can be proved about them
		n := "|zarr!" + sortKey(s) + "|"
		r.zarrs[n] = s
		return n
	}
	if d, ok := r.dts[s]; ok {
		if len(d.fields) == 0 {
			return d.ctor
		}
		parts := []string{d.ctor}
		for _, f := range d.fields {
			parts = append(parts, r.zeroOfSort(f.sort))
		}
		return "(" + strings.Join(parts, " ") + ")"
	}
	return "vnil"
}

// splitArraySort splits "(Array K X)" into K and X.
func splitArraySort(s string) (string, string) {
	inner := strings.TrimSpace(s[len("(Array ") : len(s)-1])
	depth := 0
	for i, c := range inner {
		switch c {
		case '(':
			depth++
		case ')':
			depth--
		case ' ':
			if depth == 0 {
				return inner[:i], strings.TrimSpace(inner[i+1:])
			}
		case '|':
			// skip quoted symbol
		}
	}
	return inner, ""
}

func sortKey(s string) string {
	s = strings.ReplaceAll(s, "|", "")
	s = strings.ReplaceAll(s, "(", "<")
	s = strings.ReplaceAll(s, ")", ">")
	s = strings.ReplaceAll(s, " ", "_")
	return s
}

func strConst(s string) string {
	ok := true
	for _, c := range s {
		if !(c >= 'a' && c <= 'z' || c >= 'A' && c <= 'Z' || c >= '0' && c <= '9' || strings.ContainsRune("_.-/ %:(),*=<>[]{}'!?+&#@^~", c)) {
			ok = false
		}
	}
	if ok {
		return "|str!" + s + "|"
	}
	return fmt.Sprintf("|str!x%x|", s)
}

func tyConst(t types.Type) string { return "|ty!" + typeName(t) + "|" }

func sortedKeys(m map[string]bool) []string {
	out := make([]string, 0, len(m))
	for k := range m {
		out = append(out, k)
	}
	sort.Strings(out)
	return out
}

// declsFor emits only the datatypes (and zero arrays) mentioned in text, with their
// dependencies, in an order that depends on nothing but the names: the query of an
// obligation must not depend on which other functions were generated in the same run.
func (r *sortReg) declsFor(text string) string {
	need := map[string]bool{}
	var names []string
	for n := range r.dts {
		names = append(names, n)
	}
	sort.Strings(names)
	mentions := func(d *dtInfo) bool {
		if strings.Contains(text, d.name) || strings.Contains(text, d.ctor) {
			return true
		}
		for _, f := range d.fields {
			if strings.Contains(text, f.name) {
				return true
			}
		}
		return false
	}
	var zs []string
	for z := range r.zarrs {
		if strings.Contains(text, z) {
			zs = append(zs, z)
		}
	}
	sort.Strings(zs)
	var visit func(n string)
	var order []*dtInfo
	visit = func(n string) {
		if need[n] {
			return
		}
		d := r.dts[n]
		if d == nil {
			return
		}
		need[n] = true
		for _, f := range d.fields {
			for _, m := range names {
				if strings.Contains(f.sort, m) {
					visit(m)
				}
			}
		}
		order = append(order, d)
	}
	for _, z := range zs {
		for _, m := range names {
			if strings.Contains(r.zarrs[z], m) {
				visit(m)
			}
		}
	}
	for _, n := range names {
		if mentions(r.dts[n]) {
			visit(n)
		}
	}
	var sb strings.Builder
	for _, d := range order {
		if len(d.fields) == 0 {
			fmt.Fprintf(&sb, "(declare-datatypes ((%s 0)) (((%s))))\n", d.name, d.ctor)
			continue
		}
		fmt.Fprintf(&sb, "(declare-datatypes ((%s 0)) (((%s", d.name, d.ctor)
		for _, f := range d.fields {
			fmt.Fprintf(&sb, " (%s %s)", f.name, f.sort)
		}
		sb.WriteString("))))\n")
	}
	for _, z := range zs {
		fmt.Fprintf(&sb, "(declare-fun %s () %s)\n", z, r.zarrs[z])
	}
	return sb.String()
}
