package main

// Minimal s-expression reader for contract formulas.  Formulas are raw SMT-LIB
// terms with {go-expr} holes; a hole is kept as one atom (text including the
// braces).  (old <term>) evaluates the holes of <term> in the entry state.

import (
	"fmt"
	"strings"
)

type sx struct {
	atom string // non-empty for atoms (including "{...}" holes and |quoted| symbols)
	list []*sx
	isL  bool
}

func (s *sx) String() string {
	if !s.isL {
		return s.atom
	}
	parts := make([]string, len(s.list))
	for i, c := range s.list {
		parts[i] = c.String()
	}
	return "(" + strings.Join(parts, " ") + ")"
}

func parseSx(src string) (*sx, error) {
	p := &sxParser{src: src}
	p.skip()
	if p.pos >= len(p.src) {
		return nil, fmt.Errorf("empty formula")
	}
	r, err := p.parse()
	if err != nil {
		return nil, err
	}
	p.skip()
	if p.pos < len(p.src) {
		return nil, fmt.Errorf("trailing text after formula: %q", p.src[p.pos:])
	}
	return r, nil
}

// parseSxMany parses a sequence of s-expressions (used for theory blocks).
func parseSxMany(src string) ([]*sx, error) {
	p := &sxParser{src: src}
	var out []*sx
	for {
		p.skip()
		if p.pos >= len(p.src) {
			return out, nil
		}
		r, err := p.parse()
		if err != nil {
			return nil, err
		}
		out = append(out, r)
	}
}

type sxParser struct {
	src string
	pos int
}

func (p *sxParser) skip() {
	for p.pos < len(p.src) {
		c := p.src[p.pos]
		if c == ';' {
			for p.pos < len(p.src) && p.src[p.pos] != '\n' {
				p.pos++
			}
			continue
		}
		if c == ' ' || c == '\t' || c == '\n' || c == '\r' {
			p.pos++
			continue
		}
		return
	}
}

func (p *sxParser) parse() (*sx, error) {
	p.skip()
	if p.pos >= len(p.src) {
		return nil, fmt.Errorf("unexpected end of formula")
	}
	c := p.src[p.pos]
	switch c {
	case '(':
		p.pos++
		n := &sx{isL: true}
		for {
			p.skip()
			if p.pos >= len(p.src) {
				return nil, fmt.Errorf("unbalanced '(' in formula")
			}
			if p.src[p.pos] == ')' {
				p.pos++
				return n, nil
			}
			ch, err := p.parse()
			if err != nil {
				return nil, err
			}
			n.list = append(n.list, ch)
		}
	case ')':
		return nil, fmt.Errorf("unexpected ')'")
	case '{':
		depth := 0
		start := p.pos
		for p.pos < len(p.src) {
			if p.src[p.pos] == '{' {
				depth++
			}
			if p.src[p.pos] == '}' {
				depth--
				if depth == 0 {
					p.pos++
					return &sx{atom: p.src[start:p.pos]}, nil
				}
			}
			p.pos++
		}
		return nil, fmt.Errorf("unbalanced '{'")
	case '|':
		start := p.pos
		p.pos++
		for p.pos < len(p.src) && p.src[p.pos] != '|' {
			p.pos++
		}
		if p.pos >= len(p.src) {
			return nil, fmt.Errorf("unbalanced '|'")
		}
		p.pos++
		return &sx{atom: p.src[start:p.pos]}, nil
	case '"':
		start := p.pos
		p.pos++
		for p.pos < len(p.src) && p.src[p.pos] != '"' {
			p.pos++
		}
		p.pos++
		return &sx{atom: p.src[start:p.pos]}, nil
	}
	start := p.pos
	for p.pos < len(p.src) {
		c := p.src[p.pos]
		if c == ' ' || c == '\t' || c == '\n' || c == '\r' || c == '(' || c == ')' || c == ';' {
			break
		}
		p.pos++
	}
	return &sx{atom: p.src[start:p.pos]}, nil
}

// SMT-LIB reserved words and commands: no generated or contract-introduced
// symbol may be one of these (a spec function named `match` once produced a
// spurious sat).
var smtReserved = map[string]bool{
	"match": true, "let": true, "forall": true, "exists": true, "par": true, "as": true, "_": true, "!": true,
	"assert": true, "check-sat": true, "declare-fun": true, "define-fun": true, "declare-sort": true,
	"declare-const": true, "declare-datatypes": true, "declare-datatype": true, "define-fun-rec": true,
	"define-sort": true, "push": true, "pop": true, "exit": true, "get-model": true, "set-logic": true,
	"set-option": true, "set-info": true, "BINARY": true, "DECIMAL": true, "HEXADECIMAL": true, "NUMERAL": true, "STRING": true,
}

// declaredSymbols returns the symbols introduced by a theory text
// (declare-fun/define-fun/declare-sort/declare-const/define-fun-rec).
func declaredSymbols(forms []*sx) []string {
	var out []string
	for _, f := range forms {
		if !f.isL || len(f.list) < 2 {
			continue
		}
		switch f.list[0].atom {
		case "declare-fun", "define-fun", "declare-sort", "declare-const", "define-fun-rec", "define-sort":
			out = append(out, f.list[1].atom)
		}
	}
	return out
}
