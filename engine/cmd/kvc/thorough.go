package main

// Thorough tier extras: (a) the bounded replay harnesses are run on the unchanged tree and
// must pass (reported under coverage.bounded, labelled bounded, never counted as proved);
// (b) the must-fail corpus (/verif/seeded) and the must-pass corpus (/verif/selftest/harmless)
// of the property are replayed on scratch copies of /repo.

import (
	"encoding/json"
	"fmt"
	"os"
	"os/exec"
	"path/filepath"
	"sort"
	"strings"
)

type boundedResult struct {
	name string
	text string
}

var boundedFor = map[string][]string{
	"C01": {"cache_search_test.go.txt", "assumed_contracts_test.go.txt"}, "C02": {"cache_search_test.go.txt", "assumed_contracts_test.go.txt"},
	"C06": {"cache_search_test.go.txt"}, "C07": {"cache_search_test.go.txt"},
	"C03": {"assumed_contracts_test.go.txt"}, "C13": {"assumed_contracts_test.go.txt"}, "C14": {"assumed_contracts_test.go.txt"},
	"C17": {"filter_search_test.go.txt", "assumed_contracts_test.go.txt"}, "C18": {"filter_search_test.go.txt", "assumed_contracts_test.go.txt"},
	"C20": {"typed_layer_pod_test.go.txt"},
	"C19": {"typed_filter_search_test.go.txt", "assumed_contracts_test.go.txt"},
}

func runBoundedHarnesses(e *engine, prop string) ([]map[string]interface{}, []boundedResult) {
	var out []map[string]interface{}
	var bad []boundedResult
	for _, file := range boundedFor[prop] {
		for i := range harnesses {
			h := &harnesses[i]
			if h.file != file {
				continue
			}
			o := &oblig{name: h.fn.String()}
			// run the harness directly
			replayMu.Lock()
			delete(replayCache, h.file)
			replayMu.Unlock()
			r := runHarness(e, h)
			_ = o
			out = append(out, map[string]interface{}{"harness": "/verif/replay/" + h.file, "what": h.what, "label": "bounded (stand-in; not counted as proved)", "failing_input_found": r.found})
			if r.found {
				bad = append(bad, boundedResult{name: h.test, text: r.text})
			}
			break
		}
	}
	return out, bad
}

type selftestResult struct {
	MustFail    []string `json:"must_fail_changes"`
	Caught      []string `json:"caught"`
	Missed      []string `json:"missed"`
	MustPass    []string `json:"harmless_changes"`
	FalseAlarms []string `json:"false_alarms"`
}

func runSelftest(verif, repo, prop string) selftestResult {
	var st selftestResult
	run := func(patch string) (int, string) {
		scratch, err := os.MkdirTemp("", "kvcself")
		if err != nil {
			return 2, err.Error()
		}
		defer os.RemoveAll(scratch)
		if out, err := exec.Command("rsync", "-a", "--exclude", ".git", repo+"/", scratch+"/").CombinedOutput(); err != nil {
			return 2, string(out)
		}
		c := exec.Command("patch", "-p1", "-s", "-i", patch)
		c.Dir = scratch
		if out, err := c.CombinedOutput(); err != nil {
			return 3, "patch does not apply: " + string(out)
		}
		self, _ := os.Executable()
		k := exec.Command(self, "check", "-repo", scratch, "-verif", verif, "-prop", prop, "-no-evidence", "-no-replay")
		out, _ := k.CombinedOutput()
		return k.ProcessState.ExitCode(), string(out)
	}
	dirs, _ := filepath.Glob(filepath.Join(verif, "seeded", "*", "meta.json"))
	sort.Strings(dirs)
	for _, mf := range dirs {
		data, err := os.ReadFile(mf)
		if err != nil {
			continue
		}
		var m struct {
			Property   string   `json:"property"`
			Also       []string `json:"also_checks"`
			DetectedBy []string `json:"detected_by"`
		}
		json.Unmarshal(data, &m)
		// the change belongs to this property's must-fail corpus if it was recorded as detected by it
		mine := false
		for _, d := range m.DetectedBy {
			if strings.HasPrefix(d, prop+":") {
				mine = true
			}
		}
		if !mine {
			continue
		}
		name := filepath.Base(filepath.Dir(mf))
		st.MustFail = append(st.MustFail, name)
		rc, out := run(filepath.Join(filepath.Dir(mf), "patch.diff"))
		if rc == 1 && strings.Contains(out, "VIOLATION property="+prop) {
			st.Caught = append(st.Caught, name)
		} else {
			st.Missed = append(st.Missed, fmt.Sprintf("%s (exit %d)", name, rc))
		}
	}
	hs, _ := filepath.Glob(filepath.Join(verif, "selftest", "harmless", "*.diff"))
	sort.Strings(hs)
	for _, h := range hs {
		props, _ := os.ReadFile(strings.TrimSuffix(h, ".diff") + ".props")
		if !hasProp(strings.Fields(string(props)), prop) {
			continue
		}
		name := strings.TrimSuffix(filepath.Base(h), ".diff")
		st.MustPass = append(st.MustPass, name)
		if rc, out := run(h); rc != 0 {
			st.FalseAlarms = append(st.FalseAlarms, fmt.Sprintf("%s (exit %d): %s", name, rc, firstLines(out, 2)))
		}
	}
	return st
}
