package main

// Pure SMT lemmas over the spec functions of the theories (no code involved):
//   lemma <name> / props / theory / var x : Sort / assume F / prove [label] F

import (
	"fmt"
	"go/types"
	"sort"
	"strings"
)

func (e *engine) generateLemmas(prop string) []*oblig {
	var names []string
	for n, b := range e.db.lemmas {
		if hasProp(b.props, prop) {
			names = append(names, n)
		}
	}
	sort.Strings(names)
	var out []*oblig
	for _, n := range names {
		b := e.db.lemmas[n]
		b.used = true
		fc := e.newFnCtx(nil, b, "lemma."+n)
		for _, th := range b.theories {
			fc.theories[th] = true
		}
		func() {
			defer func() {
				if r := recover(); r != nil {
					if u, ok := r.(unsupported); ok {
						out = append(out, &oblig{name: "lemma." + n + "/error", kind: "lemma", fn: "lemma." + n, result: "error", model: u.msg, props: b.props})
						return
					}
					panic(r)
				}
			}()
			st := &state{cells: nil, heap: map[string]Val{}, ghost: map[string]Val{}, pc: "true", frozen: map[string]*types.Map{}}
			ev := &evalCtx{cur: st, old: st, bind: map[string]Val{}}
			for _, c := range b.byKind("var") {
				fc.decls = append(fc.decls, fmt.Sprintf("(declare-fun %s () %s)", c.gname, c.gsort))
			}
			for _, c := range b.byKind("assume") {
				fc.assumes = append(fc.assumes, fc.evalFormula(c.f, ev))
			}
			for i, c := range b.byKind("prove") {
				fc.assert(st, "lemma", "prove."+c.name(i), fc.evalFormula(c.f, ev), c.src, 0)
			}
			// the assumptions of a lemma must be satisfiable
			o := fc.assert(st, "cover", "vacuity.assumptions-satisfiable", "false", "lemma assumptions must not be unsat", 0)
			o.wantSat = true
			for _, o := range fc.obligs {
				o.pos = fmt.Sprintf("%s:%d", b.file, b.line)
				o.query = fc.buildQuery(o)
			}
			out = append(out, fc.obligs...)
		}()
	}
	return out
}

var _ = strings.TrimSpace
