package main

// Pure SMT lemmas over the spec functions of the theories (no code involved):
//   lemma <name> / props / theory / var x : Sort / assume F / prove [label] F

import (
	"fmt"
	"go/types"
	"sort"
	"strings"
)

func (e *engine) generateLemmas(prop string) []*oblig {
	var names []string
	for n, b := range e.db.lemmas {
		if hasProp(b.props, prop) {
			names = append(names, n)
		}
	}
	sort.Strings(names)
	var out []*oblig
	for _, n := range names {
		b := e.db.lemmas[n]
		b.used = true
		fc := e.newFnCtx(nil, b, "lemma."+n)
		for _, th := range b.theories {
			fc.theories[th] = true
		}
		func() {
			defer func() {
				if r := recover(); r != nil {
					if u, ok := r.(unsupported); ok {
						out = append(out, &oblig{name: "lemma." + n + "/error", kind: "lemma", fn: "lemma." + n, result: "error", model: u.msg, props: b.props})
						return
					}
					panic(r)
				}
			}()
			st := &state{cells: nil, heap: map[string]Val{}, ghost: map[string]Val{}, pc: "true", frozen: map[string]*types.Map{}}
			ev := &evalCtx{cur: st, old: st, bind: map[string]Val{}}
			induct := ""
			for _, c := range b.byKind("induct") {
				induct = c.gname
			}
			var proves []string
			np := 0
			for _, c := range b.clauses {
				switch c.kind {
				case "var":
					fc.decls = append(fc.decls, fmt.Sprintf("(declare-fun %s () %s)", c.gname, c.gsort))
				case "assume":
					if induct != "" && sxMentions(c.f, induct) {
						panic(unsupported{"lemma " + n + ": the induction variable " + induct + " may only occur in prove clauses"})
					}
					fc.assumes = append(fc.assumes, fc.evalFormula(c.f, ev))
				case "call":
					fc.lemmaCall(st, c)
				case "apply":
					fc.assumes = append(fc.assumes, fc.lemmaApply(c, ev))
				case "prove":
					t := fc.evalFormula(c.f, ev)
					proves = append(proves, t)
					fc.assert(st, "lemma", "prove."+c.name(np), t, c.src, 0)
					np++
					if induct == "" {
						// a proved clause may be used by the clauses after it (each is discharged on its own)
						fc.assumes = append(fc.assumes, t)
					}
				}
			}
			if induct != "" {
				// strong induction over the naturals: P(i) may use P(k) for all 0 <= k < i, and i >= 0
				// (P = the conjunction of the prove clauses; no assumption mentions i)
				k := "k!ind"
				var ih []string
				for _, c := range b.byKind("prove") {
					ih = append(ih, fc.evalFormula(sxSubst(c.f, map[string]*sx{induct: {atom: k}}), ev))
				}
				hyp := fmt.Sprintf("(and (>= %s 0) (forall ((%s Int)) (=> (and (<= 0 %s) (< %s %s)) (and %s))))", induct, k, k, k, induct, strings.Join(ih, " "))
				// the hypothesis is available to every prove obligation (they were created with nassume = current length; re-point them)
				fc.assumes = append(fc.assumes, hyp)
				for _, o := range fc.obligs {
					o.nassume = len(fc.assumes)
				}
			}
			_ = proves
			// the assumptions of a lemma must be satisfiable
			o := fc.assert(st, "cover", "vacuity.assumptions-satisfiable", "false", "lemma assumptions must not be unsat", 0)
			o.wantSat = true
			for _, o := range fc.obligs {
				o.pos = fmt.Sprintf("%s:%d", b.file, b.line)
				o.query = fc.buildQuery(o)
			}
			out = append(out, fc.obligs...)
		}()
	}
	return out
}

// sxMentions: does the symbol occur in the formula (as an atom)?
func sxMentions(f *sx, sym string) bool {
	if !f.isL {
		return f.atom == sym
	}
	for _, c := range f.list {
		if sxMentions(c, sym) {
			return true
		}
	}
	return false
}

// sxSubst substitutes atoms (lemma variables are chosen distinct from bound variables).
func sxSubst(f *sx, m map[string]*sx) *sx {
	if !f.isL {
		if r, ok := m[f.atom]; ok {
			return r
		}
		return f
	}
	out := &sx{isL: true}
	for _, c := range f.list {
		out.list = append(out.list, sxSubst(c, m))
	}
	return out
}

// lemmaCall: "call r := f a b ..." — some call of f whose arguments are the given lemma terms and
// which satisfies f's preconditions; the postconditions of f's contract (the very clauses the
// function is verified against) are assumed, with the results named r (r!1, r!2 for further results).
func (fc *fnCtx) lemmaCall(st *state, c *clause) {
	fs := strings.Fields(c.src)
	name, args := fs[0], fs[1:]
	blk := fc.e.db.funcs[name]
	if blk == nil {
		panic(unsupported{"lemma call: no contract for " + name})
	}
	fn := fc.e.anyFuncByName(name)
	if fn == nil {
		panic(unsupported{"lemma call: no function " + name})
	}
	if len(blk.modifies) > 0 {
		panic(unsupported{"lemma call: " + name + " has a modifies clause"})
	}
	sig := fn.Signature
	var ptypes []types.Type
	if sig.Recv() != nil {
		ptypes = append(ptypes, sig.Recv().Type())
	}
	for k := 0; k < sig.Params().Len(); k++ {
		ptypes = append(ptypes, sig.Params().At(k).Type())
	}
	if len(args) != len(ptypes) {
		panic(unsupported{fmt.Sprintf("lemma call %s: %d arguments for %d parameters", name, len(args), len(ptypes))})
	}
	var vals []Val
	bind := map[string]Val{}
	for k, a := range args {
		v := Val{T: a, S: fc.sortOf(ptypes[k]), Ty: ptypes[k]}
		vals = append(vals, v)
		off := 0
		if sig.Recv() != nil {
			off = 1
		}
		if k >= off {
			bind[fmt.Sprintf("$%d", k-off)] = v
		}
	}
	bindParams(bind, fn, vals)
	blk.used = true
	for _, th := range blk.theories {
		fc.theories[th] = true
	}
	if blk.kind == "assumed" {
		fc.trusted["assumed contract of "+blk.name] = true
	}
	ev := &evalCtx{cur: st, old: st, bind: bind, callee: true}
	for _, rc := range blk.byKind("requires") {
		fc.assumes = append(fc.assumes, fc.evalFormula(rc.f, ev))
	}
	b2 := map[string]Val{}
	for k, v := range bind {
		b2[k] = v
	}
	for k := 0; k < sig.Results().Len(); k++ {
		rt := sig.Results().At(k).Type()
		rn := c.gname
		if k > 0 {
			rn = fmt.Sprintf("%s!%d", c.gname, k)
		}
		fc.decls = append(fc.decls, fmt.Sprintf("(declare-fun %s () %s)", rn, fc.sortOf(rt)))
		v := Val{T: rn, S: fc.sortOf(rt), Ty: rt}
		b2[fmt.Sprintf("result%d", k)] = v
		if k == 0 {
			b2["result"] = v
		}
		if nm := sig.Results().At(k).Name(); nm != "" && nm != "_" {
			b2[nm] = v
		}
	}
	ev2 := &evalCtx{cur: st, old: st, bind: b2, callee: true}
	for _, ec := range blk.byKind("ensures") {
		fc.assumes = append(fc.assumes, fc.evalFormula(ec.f, ev2))
	}
}

// lemmaApply: "apply L (x t) ..." — the statement of lemma L (its assumptions imply its prove clauses)
// instantiated with the given terms; L is proved on its own (same property list required by the caller).
// Every variable of L must be given, except the induction variable, which is universally quantified over the naturals.
func (fc *fnCtx) lemmaApply(c *clause, ev *evalCtx) string {
	lb := fc.e.db.lemmas[c.gname]
	if lb == nil {
		panic(unsupported{"apply: no lemma " + c.gname})
	}
	if len(lb.byKind("call")) > 0 {
		panic(unsupported{"apply: lemma " + c.gname + " uses call clauses (its hypotheses are not closed formulas) and cannot be applied"})
	}
	for _, pr := range fc.blk.props {
		if !hasProp(lb.props, pr) {
			panic(unsupported{"apply: lemma " + c.gname + " is not proved under property " + pr})
		}
	}
	lb.used = true
	for _, th := range lb.theories {
		fc.theories[th] = true
	}
	m := map[string]*sx{}
	for _, p := range c.f.list {
		if !p.isL || len(p.list) != 2 || p.list[0].isL {
			panic(unsupported{"apply " + c.gname + ": expected (var term) pairs"})
		}
		m[p.list[0].atom] = p.list[1]
	}
	induct := ""
	for _, ic := range lb.byKind("induct") {
		induct = ic.gname
	}
	// variables of L that are not instantiated are universally quantified
	var univ []string
	for _, vc := range lb.byKind("var") {
		if _, ok := m[vc.gname]; !ok && vc.gname != induct {
			univ = append(univ, fmt.Sprintf("(%s %s)", vc.gname, vc.gsort))
		}
	}
	var as, ps []string
	for _, a := range lb.byKind("assume") {
		as = append(as, fc.evalFormula(sxSubst(a.f, m), ev))
	}
	for _, p := range lb.byKind("prove") {
		ps = append(ps, fc.evalFormula(sxSubst(p.f, m), ev))
	}
	concl := "(and " + strings.Join(ps, " ") + ")"
	if induct != "" {
		if _, given := m[induct]; !given {
			concl = fmt.Sprintf("(forall ((%s Int)) (=> (>= %s 0) %s))", induct, induct, concl)
		} else {
			concl = fmt.Sprintf("(=> (>= %s 0) %s)", fc.evalFormula(m[induct], ev), concl)
		}
	}
	body := concl
	if len(as) > 0 {
		body = fmt.Sprintf("(=> (and %s) %s)", strings.Join(as, " "), concl)
	}
	if len(univ) > 0 {
		body = fmt.Sprintf("(forall (%s) %s)", strings.Join(univ, " "), body)
	}
	return body
}
