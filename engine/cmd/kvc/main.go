package main

import (
	"flag"
	"fmt"
	"go/token"
	"go/types"
	"os"
	"path/filepath"
	"regexp"
	"runtime"
	"sort"
	"strings"
	"time"

	"golang.org/x/tools/go/packages"
	"golang.org/x/tools/go/ssa"
	"golang.org/x/tools/go/ssa/ssautil"
)

type engine struct {
	prog       *ssa.Program
	fset       *token.FileSet
	db         *contractDB
	sorts      *sortReg
	funcByName map[string]*ssa.Function
	typeByName map[string]types.Type
	thSyms     map[string][]string
	pkgs       []*ssa.Package
	loadSecs   float64
	repo       string
	allFuncs   map[string]*ssa.Function
	callersOf  map[*ssa.Function][]*ssa.Function
	usedAsValue map[*ssa.Function]bool
	localsSnap map[string][]localVar
	snapshotFile string
}

func loadEngine(repo, theoryDir string) (*engine, error) {
	t0 := time.Now()
	cfg := &packages.Config{
		Mode:       packages.LoadSyntax,
		Dir:        repo,
		BuildFlags: []string{"-tags=verif"},
		Env:        append(os.Environ(), "GOFLAGS=-mod=mod", "GOPROXY=off", "GOSUMDB=off", "GOTOOLCHAIN=local"),
	}
	pkgs, err := packages.Load(cfg, "./...")
	if err != nil {
		return nil, err
	}
	nerr := 0
	packages.Visit(pkgs, nil, func(p *packages.Package) {
		for _, e := range p.Errors {
			fmt.Fprintf(os.Stderr, "load: %v\n", e)
			nerr++
		}
	})
	if nerr > 0 {
		return nil, fmt.Errorf("%d errors loading %s", nerr, repo)
	}
	prog, spkgs := ssautil.Packages(pkgs, ssa.NaiveForm|ssa.GlobalDebug)
	prog.Build()
	e := &engine{prog: prog, sorts: newSortReg(), funcByName: map[string]*ssa.Function{}, typeByName: map[string]types.Type{}, thSyms: map[string][]string{}, repo: repo}
	if len(pkgs) > 0 {
		e.fset = pkgs[0].Fset
	}
	root := map[*ssa.Package]bool{}
	for _, p := range spkgs {
		if p != nil {
			root[p] = true
			e.pkgs = append(e.pkgs, p)
		}
	}
	for fn := range ssautil.AllFunctions(prog) {
		if fn.Pkg != nil && root[fn.Pkg] || fn.Parent() != nil && root[fn.Parent().Pkg] {
			e.funcByName[canonName(fn)] = fn
		}
	}
	for _, p := range prog.AllPackages() {
		for _, m := range p.Members {
			if t, ok := m.(*ssa.Type); ok {
				n := typeName(t.Type())
				e.typeByName[n] = t.Type()
				e.typeByName["*"+n] = types.NewPointer(t.Type())
			}
		}
	}
	files, err := contractFiles(repo, theoryDir)
	if err != nil {
		return nil, err
	}
	e.snapshotFile = filepath.Join(theoryDir, "locals.snapshot")
	theEngine = e
	e.db, err = loadContracts(files)
	if err != nil {
		return nil, err
	}
	e.loadSecs = time.Since(t0).Seconds()
	return e, nil
}

// baseFuncName: "f#view" names a further contract block for function f (verified separately against
// the same SSA, with its own theories; call sites use the block without suffix).
func baseFuncName(n string) string {
	if i := strings.Index(n, "#"); i >= 0 {
		return n[:i]
	}
	return n
}

// anyFuncByName: a function of /repo, or (for assumed contracts) of a dependency, by canonical name.
func (e *engine) anyFuncByName(name string) *ssa.Function {
	name = baseFuncName(name)
	if f := e.funcByName[name]; f != nil {
		return f
	}
	if e.allFuncs == nil {
		e.allFuncs = map[string]*ssa.Function{}
		for fn := range ssautil.AllFunctions(e.prog) {
			e.allFuncs[canonName(fn)] = fn
		}
	}
	return e.allFuncs[name]
}

// verifyAll generates obligations for the named function blocks (all when names is empty).
func (e *engine) generate(filter func(b *block) bool) []*fnResult {
	var names []string
	for n, b := range e.db.funcs {
		if b.kind == "func" && filter(b) {
			names = append(names, n)
		}
	}
	sort.Strings(names)
	var out []*fnResult
	for _, n := range names {
		b := e.db.funcs[n]
		fn := e.funcByName[baseFuncName(n)]
		if fn == nil {
			// contract binds to nothing: reported as a failed obligation (vacuity guard i)
			out = append(out, &fnResult{name: n, obligs: []*oblig{{name: n + "/unmapped.function", kind: "unmapped", fn: n, goal: "false", result: "sat", solver: "structural", props: b.props, clause: "contract block binds to no function in /repo", model: "function not found"}}})
			continue
		}
		out = append(out, e.tryRebind(fn, b, e.verifyFunc(fn, b)))
	}
	return out
}

func main() {
	if len(os.Args) < 2 {
		fmt.Fprintln(os.Stderr, "usage: kvc verify|check|list ...")
		os.Exit(2)
	}
	switch os.Args[1] {
	case "verify":
		cmdVerify(os.Args[2:])
	case "check":
		cmdCheck(os.Args[2:])
	case "snapshot-locals":
		e, err := loadEngine("/repo", "/verif/theory")
		if err != nil {
			fmt.Fprintln(os.Stderr, err)
			os.Exit(2)
		}
		var names []string
		for n, b := range e.db.funcs {
			if b.kind == "func" {
				names = append(names, baseFuncName(n))
			}
		}
		sort.Strings(names)
		seen := map[string]bool{}
		for _, n := range names {
			fn := e.funcByName[n]
			if fn == nil || seen[n] {
				continue
			}
			seen[n] = true
			var fs []string
			for _, v := range orderedLocals(fn) {
				fs = append(fs, v.name+":"+v.typ)
			}
			fmt.Printf("%s\t%s\n", n, strings.Join(fs, "|||"))
		}
	case "uncovered":
		e, err := loadEngine("/repo", "/verif/theory")
		if err != nil {
			fmt.Fprintln(os.Stderr, err)
			os.Exit(2)
		}
		var names []string
		for n, f := range e.funcByName {
			if len(f.Blocks) == 0 || f.Synthetic != "" {
				continue
			}
			if _, ok := e.db.funcs[n]; ok {
				continue
			}
			if e.db.isOpaque(n) || strings.HasSuffix(n, ".init") {
				continue
			}
			names = append(names, n)
		}
		sort.Strings(names)
		for _, n := range names {
			fmt.Println(n)
		}
		fmt.Println(len(names), "functions without contract;", len(e.db.funcs), "contract blocks")
	case "types":
		e, err := loadEngine("/repo", "/verif/theory")
		if err != nil {
			fmt.Fprintln(os.Stderr, err)
			os.Exit(2)
		}
		for _, n := range os.Args[2:] {
			t := e.typeByName[n]
			if t == nil {
				fmt.Println(n, ": unknown")
				continue
			}
			fmt.Println(n, "->", e.sorts.sortOf(t))
			if st, ok := t.Underlying().(*types.Struct); ok {
				for i := 0; i < st.NumFields(); i++ {
					fmt.Printf("    %s %s -> %s\n", st.Field(i).Name(), typeName(st.Field(i).Type()), e.sorts.sortOf(st.Field(i).Type()))
				}
			}
		}
	default:
		fmt.Fprintln(os.Stderr, "unknown command", os.Args[1])
		os.Exit(2)
	}
}

func cmdVerify(args []string) {
	fs := flag.NewFlagSet("verify", flag.ExitOnError)
	repo := fs.String("repo", "/repo", "repository")
	verif := fs.String("verif", "/verif", "verif dir")
	pat := fs.String("func", ".*", "regexp on function names")
	secs := fs.Int("t", 10, "solver timeout")
	keep := fs.String("keep", "", "directory to keep queries in")
	verbose := fs.Bool("v", false, "print every obligation")
	covers := fs.Bool("covers", false, "also discharge the thorough-tier cover probes")
	structural := fs.Bool("structural", false, "also generate the structural obligations of every property")
	fs.Parse(args)
	e, err := loadEngine(*repo, filepath.Join(*verif, "theory"))
	if err != nil {
		fmt.Fprintln(os.Stderr, "load:", err)
		os.Exit(2)
	}
	re := regexp.MustCompile(*pat)
	t0 := time.Now()
	results := e.generate(func(b *block) bool { return re.MatchString(b.name) })
	dir := *keep
	if dir == "" {
		dir, _ = os.MkdirTemp("", "kvc")
		defer os.RemoveAll(dir)
	} else {
		os.MkdirAll(dir, 0755)
	}
	var all []*oblig
	if *structural {
		seen := map[string]bool{}
		sr := &fnResult{name: "structural"}
		for i := 1; i <= 20; i++ {
			for _, o := range e.structuralObligations(fmt.Sprintf("C%02d", i)) {
				if !seen[o.name] {
					seen[o.name] = true
					sr.obligs = append(sr.obligs, o)
				}
			}
		}
		results = append(results, sr)
	}
	for _, r := range results {
		if r.name != "structural" {
			if !*covers {
				var keep []*oblig
				for _, o := range r.obligs {
					if !o.thoroughOnly {
						keep = append(keep, o)
					}
				}
				r.obligs = keep
			}
			all = append(all, r.obligs...)
		}
	}
	tg := time.Since(t0)
	discharge(all, dischargeOpts{quickSecs: *secs, fullSecs: *secs, workdir: dir, jobs: runtime.NumCPU()})
	bad := 0
	for _, r := range results {
		if r.rejected != "" {
			fmt.Printf("REJECTED %s: %s\n", r.name, r.rejected)
			bad++
			continue
		}
		nb := 0
		for _, o := range r.obligs {
			ok := o.result == "unsat" && !o.wantSat || o.wantSat && o.result != "unsat" && o.result != "error"
			if !ok {
				nb++
			}
			if *verbose || !ok {
				fmt.Printf("  %-6s %-8s %6.2fs %s   [%s]\n", map[bool]string{true: "ok", false: "FAIL"}[ok], o.result, o.secs, o.name, o.pos)
				if !ok && o.model != "" && *verbose {
					fmt.Println(indent(firstN(o.model, 1500), "        "))
				}
			}
		}
		fmt.Printf("%s: %d obligations, %d failed; trusted=%d notes=%v\n", r.name, len(r.obligs), nb, len(r.trusted), r.notes)
		bad += nb
	}
	fmt.Printf("load %.1fs, generate %.1fs, total %.1fs; failed=%d\n", e.loadSecs, tg.Seconds(), time.Since(t0).Seconds(), bad)
	if bad > 0 {
		if *keep == "" {
			os.RemoveAll(dir)
		}
		os.Exit(1)
	}
}

func firstN(s string, n int) string {
	if len(s) > n {
		return s[:n] + "..."
	}
	return s
}

func indent(s, pre string) string {
	return pre + strings.ReplaceAll(s, "\n", "\n"+pre)
}
