package main

// kvc check -prop <id> -tier quick|thorough : decide one property.

import (
	"encoding/json"
	"flag"
	"fmt"
	"os"
	"path/filepath"
	"regexp"
	"runtime"
	"sort"
	"strings"
	"time"
)

type finding struct {
	kind  string // finding | fixed
	prop  string
	oblig string
	text  string
}

func loadFindings(path string) []finding {
	data, err := os.ReadFile(path)
	if err != nil {
		return nil
	}
	var out []finding
	re := regexp.MustCompile(`^(finding|fixed):\s+property=(\S+)\s+(.*)$`)
	for _, l := range strings.Split(string(data), "\n") {
		m := re.FindStringSubmatch(strings.TrimSpace(l))
		if m == nil {
			continue
		}
		f := finding{kind: m[1], prop: m[2], text: m[3]}
		if mm := regexp.MustCompile(`obligation=(\S+)`).FindStringSubmatch(m[3]); mm != nil {
			f.oblig = mm[1]
		}
		out = append(out, f)
	}
	return out
}

func hasProp(props []string, id string) bool {
	for _, p := range props {
		if p == id {
			return true
		}
	}
	return false
}

func okOblig(o *oblig) bool {
	if o.wantSat {
		return o.result != "unsat" && o.result != "error"
	}
	return o.result == "unsat"
}

func cmdCheck(args []string) {
	fs := flag.NewFlagSet("check", flag.ExitOnError)
	repo := fs.String("repo", "/repo", "repository")
	verif := fs.String("verif", "/verif", "verif dir")
	prop := fs.String("prop", "", "property id")
	tier := fs.String("tier", "quick", "quick|thorough")
	noEvidence := fs.Bool("no-evidence", false, "do not write the evidence file (selftest runs on scratch copies)")
	noReplay := fs.Bool("no-replay", false, "do not look for a concrete failing input (corpus runs only need the verdict)")
	fs.Parse(args)
	if *prop == "" {
		fmt.Fprintln(os.Stderr, "check: -prop required")
		os.Exit(2)
	}
	t0 := time.Now()
	seed := 0
	fmt.Sscanf(os.Getenv("VERIF_SEED"), "%d", &seed)
	e, err := loadEngine(*repo, filepath.Join(*verif, "theory"))
	if err != nil {
		fmt.Printf("ENGINE-ERROR property=%s cannot load /repo: %v\n", *prop, err)
		os.Exit(2)
	}
	// 1. functions and lemmas serving the property, closed under the /repo callee contracts they use
	selected := map[string]bool{}
	for n, b := range e.db.funcs {
		if b.kind == "func" && hasProp(b.props, *prop) {
			selected[n] = true
		}
	}
	var results []*fnResult
	done := map[string]bool{}
	for {
		var todo []string
		for n := range selected {
			if !done[n] {
				todo = append(todo, n)
			}
		}
		if len(todo) == 0 {
			break
		}
		sort.Strings(todo)
		for _, n := range todo {
			done[n] = true
		}
		rs := e.generate(func(b *block) bool {
			for _, n := range todo {
				if n == b.name {
					return true
				}
			}
			return false
		})
		results = append(results, rs...)
		for n, b := range e.db.funcs {
			if b.kind == "func" && b.used && !selected[n] {
				selected[n] = true
			}
		}
	}
	sort.Slice(results, func(i, j int) bool { return results[i].name < results[j].name })
	lemmaRes := e.generateLemmas(*prop)
	structRes := e.structuralObligations(*prop)

	var all []*oblig
	var rejected []string
	findings := loadFindings(filepath.Join(*verif, "known-findings.txt"))
	for _, r := range results {
		if r.rejected != "" {
			rejected = append(rejected, r.name+": "+r.rejected)
		}
		tagged := false
		if b := e.db.funcs[r.name]; b != nil && hasProp(b.props, *prop) {
			tagged = true
		}
		for _, o := range r.obligs {
			// a clause with its own property list belongs only to those properties
			if tagged && len(o.props) > 0 && !hasProp(o.props, *prop) {
				continue
			}
			if o.thoroughOnly && *tier != "thorough" {
				continue
			}
			for _, f := range findings {
				if f.kind == "finding" && f.oblig == o.name {
					o.baseline = true // recorded finding: one solver, quick timeout
				}
			}
			all = append(all, o)
		}
	}
	all = append(all, lemmaRes...)
	dir, _ := os.MkdirTemp("", "kvc-"+*prop)
	defer os.RemoveAll(dir)
	opt := dischargeOpts{quickSecs: 10, fullSecs: 20, workdir: dir, jobs: runtime.NumCPU()}
	if *tier == "thorough" {
		opt.quickSecs, opt.fullSecs, opt.all, opt.crossSecs = 20, 60, true, 5
	}
	// VERIF_SEED only permutes the dispatch order
	if seed != 0 {
		for i := range all {
			j := (i*7919 + seed) % len(all)
			if j < 0 {
				j = -j
			}
			all[i], all[j] = all[j], all[i]
		}
	}
	discharge(all, opt)
	all = append(all, structRes...)
	sort.SliceStable(all, func(i, j int) bool { return all[i].name < all[j].name })

	// 2. verdicts
	var failed, known []*oblig
	discharged := 0
	solverTime := 0.0
	byBackend := map[string]int{}
	crossConfirmed := map[string]int{}
	for _, o := range all {
		solverTime += o.secs
		if okOblig(o) {
			if !o.wantSat {
				discharged++
			}
			byBackend[o.solver]++
			for _, a := range o.alsoUnsat {
				crossConfirmed[a]++
			}
			continue
		}
		isKnown := false
		for _, f := range findings {
			if f.kind == "finding" && f.prop == *prop && f.oblig == o.name {
				isKnown = true
				fmt.Printf("KNOWN-FINDING: property=%s %s\n", *prop, f.text)
			}
		}
		if isKnown {
			known = append(known, o)
		} else {
			failed = append(failed, o)
		}
	}
	nObl := 0
	for _, o := range all {
		if !o.wantSat {
			nObl++
		}
	}
	// 3. violations
	exit := 0
	replayDir := filepath.Join(*verif, "replays", *prop)
	engineErr := false
	for _, o := range failed {
		if o.result == "error" && o.solver != "disagreement" && (strings.Contains(o.model, "sort") || strings.Contains(o.model, "unknown constant") || strings.Contains(o.model, "not declared") || strings.Contains(o.model, "Parse Error")) {
			// every solver rejects the query as ill-sorted: a clause of the contract no longer fits the types of the
			// code it is bound to (on the unchanged tree no query is ill-sorted).  Like an unmapped clause, that is a
			// failed obligation, not an engine failure.
			o.clause = "the contract clause no longer fits the code it is bound to (ill-sorted after the change): " + o.clause
		} else if o.result == "error" {
			engineErr = true
			fmt.Printf("ENGINE-ERROR property=%s obligation=%s %s\n", *prop, o.name, firstLines(o.model, 2))
			continue
		}
		os.MkdirAll(replayDir, 0755)
		path := filepath.Join(replayDir, sanitizeFile(o.name)+".txt")
		skipReplay = *noReplay
		suffix := writeReplay(e, o, path, *prop)
		fmt.Printf("VIOLATION property=%s replay=%s%s\n", *prop, path, suffix)
		exit = 1
	}
	if len(rejected) > 0 {
		// On the unchanged tree every function under contract is inside the modelled subset (tools/runall.sh checks
		// it).  A function that can no longer be translated is therefore a function whose obligations were all
		// discharged before the change and cannot even be generated now: reported as a violation without a failing
		// input, with the reason; the UNDECIDED line is kept for the reader.
		for k, r := range rejected {
			fmt.Printf("UNDECIDED property=%s function outside the modelled subset: %s\n", *prop, r)
			os.MkdirAll(replayDir, 0755)
			path := filepath.Join(replayDir, fmt.Sprintf("outside-the-modelled-subset_%d.txt", k))
			os.WriteFile(path, []byte("property: "+*prop+"\nfailed obligation: every obligation of the contract of this function\n"+
				"reason: the function can no longer be translated (it was inside the modelled subset, and all its obligations were discharged, on the unchanged tree): "+r+"\n\nno-failing-input-found\n"), 0644)
			fmt.Printf("VIOLATION property=%s replay=%s no-failing-input-found\n", *prop, path)
		}
		exit = 1
	}
	if engineErr && exit == 0 {
		exit = 2
	}
	if nObl == 0 {
		fmt.Printf("ENGINE-ERROR property=%s no obligations were generated (vacuous check)\n", *prop)
		exit = 2
	}
	// 3b. thorough tier: bounded replay harnesses on the unchanged tree and the must-fail / must-pass corpora
	thorough := map[string]interface{}{}
	if *tier == "thorough" {
		thorough["cross_checked_unsat_by"] = crossConfirmed
	}
	if *tier == "thorough" && !*noEvidence {
		bounded, bad := runBoundedHarnesses(e, *prop)
		thorough["bounded"] = bounded
		for _, b := range bad {
			os.MkdirAll(replayDir, 0755)
			path := filepath.Join(replayDir, "bounded_"+sanitizeFile(b.name)+".txt")
			os.WriteFile(path, []byte("bounded search on the real code found a failing input (stand-in, labelled bounded)\n\n"+b.text), 0644)
			fmt.Printf("VIOLATION property=%s replay=%s\n", *prop, path)
			exit = 1
		}
		st := runSelftest(*verif, *repo, *prop)
		thorough["selftest"] = st
		if len(st.Missed) > 0 || len(st.FalseAlarms) > 0 {
			fmt.Printf("ENGINE-ERROR property=%s selftest: must-fail changes not detected %v, harmless changes flagged %v\n", *prop, st.Missed, st.FalseAlarms)
			if exit == 0 {
				exit = 2
			}
		}
	}
	// 4. evidence
	extraCoverage = thorough
	if !*noEvidence {
		writeEvidence(e, *verif, *prop, *tier, seed, results, all, failed, known, discharged, nObl, solverTime, byBackend, time.Since(t0).Seconds(), rejected)
	}
	fmt.Printf("property=%s tier=%s functions=%d obligations=%d discharged=%d known-findings=%d violations=%d wall=%.1fs\n",
		*prop, *tier, len(results), nObl, discharged, len(known), len(failed), time.Since(t0).Seconds())
	os.RemoveAll(dir)
	os.Exit(exit)
}

func sanitizeFile(s string) string {
	return strings.Map(func(r rune) rune {
		if r >= 'a' && r <= 'z' || r >= 'A' && r <= 'Z' || r >= '0' && r <= '9' || r == '.' || r == '-' || r == '_' || r == '#' {
			return r
		}
		return '_'
	}, s)
}

// writeReplay writes the replay file of a failed obligation and returns the
// suffix of the VIOLATION line.
func writeReplay(e *engine, o *oblig, path, prop string) string {
	var sb strings.Builder
	fmt.Fprintf(&sb, "property: %s\nfailed obligation: %s\nkind: %s\nfunction: %s\nsource location: %s\n", prop, o.name, o.kind, o.fn, o.pos)
	fmt.Fprintf(&sb, "contract clause: %s\n", strings.TrimSpace(o.clause))
	fmt.Fprintf(&sb, "solver verdict: %s (%s, %.1fs)\n", o.result, o.solver, o.secs)
	fmt.Fprintf(&sb, "this obligation is discharged (unsat) on the unchanged tree; it is generated from the SSA of the current working tree of /repo\n")
	suffix := " no-failing-input-found"
	var rep replayResult
	if !skipReplay {
		rep = tryReplay(e, o, prop)
	}
	if rep.found {
		suffix = ""
		fmt.Fprintf(&sb, "\n==== failing input replayed on the real code ====\n%s\n", rep.text)
	} else if rep.text != "" {
		fmt.Fprintf(&sb, "\n==== replay attempt ====\n%s\nno-failing-input-found\n", rep.text)
	} else {
		fmt.Fprintf(&sb, "\nno-failing-input-found (obligation kind %q has no input harness)\n", o.kind)
	}
	fmt.Fprintf(&sb, "\n==== solver output / model ====\n%s\n", firstN(o.model, 20000))
	fmt.Fprintf(&sb, "\n==== goal ====\n%s\n", o.goal)
	fmt.Fprintf(&sb, "\n==== query (SMT-LIB) ====\n%s\n", firstN(o.query, 200000))
	os.WriteFile(path, []byte(sb.String()), 0644)
	return suffix
}

type evidence struct {
	PropertyID  string                 `json:"property_id"`
	Tier        string                 `json:"tier"`
	Seed        int                    `json:"seed"`
	Level       string                 `json:"level"`
	Coverage    map[string]interface{} `json:"coverage"`
	Assumptions []string               `json:"assumptions"`
	WallS       float64                `json:"wall_s"`
	Violations  int                    `json:"violations"`
}

func writeEvidence(e *engine, verif, prop, tier string, seed int, results []*fnResult, all, failed, known []*oblig, discharged, nObl int, solverTime float64, byBackend map[string]int, wall float64, rejected []string) {
	var fns []map[string]interface{}
	trusted := map[string]bool{}
	var notes []string
	for _, r := range results {
		n, ok := 0, 0
		for _, o := range r.obligs {
			if o.wantSat {
				continue
			}
			n++
			if okOblig(o) {
				ok++
			}
		}
		fns = append(fns, map[string]interface{}{"function": r.name, "obligations": n, "discharged": ok, "theories": r.theories, "rejected": r.rejected})
		for _, t := range r.trusted {
			trusted[t] = true
		}
		for _, nn := range r.notes {
			notes = append(notes, r.name+": "+nn)
		}
	}
	var samples []map[string]interface{}
	step := len(all)/6 + 1
	for i := 0; i < len(all); i += step {
		o := all[i]
		samples = append(samples, map[string]interface{}{"obligation": o.name, "kind": o.kind, "goal": firstN(o.goal, 600), "clause": firstN(strings.TrimSpace(o.clause), 300), "result": o.result, "backend": o.solver, "secs": o.secs, "query_bytes": len(o.query)})
	}
	var perObl []map[string]interface{}
	for _, o := range all {
		perObl = append(perObl, map[string]interface{}{"name": o.name, "kind": o.kind, "result": o.result, "backend": o.solver, "secs": float64(int(o.secs*1000)) / 1000})
	}
	var knownL, failedL []string
	for _, o := range known {
		knownL = append(knownL, o.name+" ("+o.result+")")
	}
	for _, o := range failed {
		failedL = append(failedL, o.name+" ("+o.result+")")
	}
	meta := propMeta[prop]
	tb := append([]string{}, trustedBase...)
	tb = append(tb, sortedKeys(trusted)...)
	cov := map[string]interface{}{
		"obligations":               nObl - len(known),
		"discharged":                discharged,
		"known_finding_obligations": knownL,
		"failed_obligations":        failedL,
		"checker_cmd":               fmt.Sprintf("/verif/check %s --tier %s  (kvc: go/ssa NaiveForm of /repo's working tree with -tags verif -> SMT-LIB obligations -> z3 5.1.0 | z3 4.8.12 | cvc5 1.0)", prop, tier),
		"trusted_base":              tb,
		"functions_under_contract":  fns,
		"backends":                  byBackend,
		"solver_time_s":             float64(int(solverTime*100)) / 100,
		"samples":                   samples,
		"per_obligation":            perObl,
		"outside_subset":            rejected,
		"not_decided":               meta.notDecided,
		"notes":                     notes,
		"bounded":                   []string{},
		"explanation":               meta.explanation,
	}
	for k, v := range extraCoverage {
		cov[k] = v
	}
	ev := evidence{PropertyID: prop, Tier: tier, Seed: seed, Level: "proof", Coverage: cov, WallS: float64(int(wall*100)) / 100, Violations: len(failed)}
	ev.Assumptions = append(ev.Assumptions, meta.assumptions...)
	ev.Assumptions = append(ev.Assumptions, sortedKeys(trusted)...)
	ev.Assumptions = append(ev.Assumptions, "definitional axioms of the spec functions in the theories (existence of a sorted arrangement / of the increasing enumeration of selecting positions, the recursive definition of NSName's partial entries, Go's string order being a strict total order)", "machine integers are treated as mathematical integers (comparisons, + - *, truncating / and %; no overflow is modelled; the functions under contract only count and index)",
		"strings are uninterpreted values with equality, an uninterpreted concatenation and < axiomatised only as a strict total order; interface values and pointers share one reference sort, typed nil pointers inside interfaces are not distinguished from nil interfaces",
		"logging calls are dropped (no effect on modelled state)", "objects are not mutated while cached (A-imm)")
	os.MkdirAll(filepath.Join(verif, "evidence"), 0755)
	data, _ := json.MarshalIndent(ev, "", " ")
	os.WriteFile(filepath.Join(verif, "evidence", prop+".json"), data, 0644)
}

var extraCoverage map[string]interface{}
var skipReplay bool

var trustedBase = []string{
	"go/packages + go/ssa (x/tools v0.29.0) build the SSA of /repo's working tree",
	"this generator's SSA->SMT encoding (guarded by the must-fail/must-pass selftest corpus)",
	"SMT solvers z3 5.1.0, z3 4.8.12, cvc5 1.0 (a sat/unsat disagreement is an engine error, never a verdict; a query that every solver rejects as ill-sorted means a contract clause no longer fits the changed code and is a failed obligation)",
	"Go memory model axioms used: fresh allocations are distinct from existing references; references read from the heap are allocated",
}

type propInfo struct {
	explanation string
	notDecided  []string
	assumptions []string
}

var propMeta = map[string]propInfo{}
