package main

func cmdCheck(args []string) {}
