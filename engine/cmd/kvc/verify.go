package main

import (
	"os"
	"fmt"
	"go/token"
	"go/types"
	"sort"
	"strings"

	"golang.org/x/tools/go/ssa"
)

type fnResult struct {
	name     string
	obligs   []*oblig
	rejected string // non-empty: function is outside the modelled subset (reason)
	trusted  []string
	notes    []string
	theories []string
	spawns   []string
	prelude  string // query prefix shared by all obligations
}

func (e *engine) newFnCtx(fn *ssa.Function, blk *block, name string) *fnCtx {
	fc := &fnCtx{e: e, fn: fn, blk: blk, name: name,
		env: map[ssa.Value]interface{}{}, strs: map[string]bool{"|str!|": true}, tys: map[string]types.Type{}, tyNames: map[string]bool{},
		ifaces: map[string]*types.Interface{}, heapSort: map[string]string{}, boxes: map[string]string{},
		params: map[string]Val{}, closures: map[string]*closureInfo{}, prov: map[string]string{}, siteN: map[string]int{},
		trusted: map[string]bool{}, anchorsHit: map[*clause]int{}, anchorsSeen: map[*clause]int{}, loopsOf: map[*ssa.BasicBlock]int{}, theories: map[string]bool{},
		rangeOf: map[*ssa.Range]*rangeInfo{}, selIdx: map[*ssa.Select]string{}, sitePos: map[string][]token.Pos{}, linearCells: map[*ssa.Alloc]bool{}, allocFacts: map[string]bool{}, unmappedClauses: map[*clause]bool{}, callOf: map[string]string{}, aliasOf: map[string]Val{}, aliasOff: map[string]string{}, aliasCell: map[*ssa.Alloc]Val{}, freshRefs: map[string]bool{}, frozenTag: map[string]*types.Map{}, frozenNow: map[string]bool{}, modsOf: map[*ssa.BasicBlock]modSet{},
	}
	return fc
}

// verifyFunc generates the obligations of one function under contract.
func (e *engine) verifyFunc(fn *ssa.Function, blk *block) (res *fnResult) {
	if dbg := os.Getenv("KVC_FORCE_ALIAS"); dbg != "" {
		alias := map[string]string{}
		for _, kv := range strings.Split(dbg, ",") {
			if i := strings.Index(kv, "="); i > 0 {
				alias[kv[:i]] = kv[i+1:]
			}
		}
		return e.verifyFuncWith(fn, blk, alias)
	}
	return e.verifyFuncWith(fn, blk, nil)
}

func (e *engine) verifyFuncWith(fn *ssa.Function, blk *block, alias map[string]string) (res *fnResult) {
	name := canonName(fn)
	if blk != nil && baseFuncName(blk.name) == name {
		name = blk.name // "f#view": a further contract block for the same function
	}
	res = &fnResult{name: name}
	fc := e.newFnCtx(fn, blk, name)
	fc.alias = alias
	defer func() {
		if r := recover(); r != nil {
			if u, ok := r.(unsupported); ok {
				res.rejected = u.msg
				res.obligs = nil
				return
			}
			panic(r)
		}
	}()
	if len(fn.Blocks) == 0 {
		unsup("function has no body")
	}
	for _, th := range blk.theories {
		fc.theories[th] = true
	}
	fc.collectSites()
	st := &state{cells: map[*ssa.Alloc]Val{}, heap: map[string]Val{}, ghost: map[string]Val{}, pc: "true", frozen: map[string]*types.Map{}}
	fc.heapVar(st, "alloc", "(Array V Bool)")
	fc.heapVar(st, "ch!closed", "(Array V Bool)")
	bind := map[string]Val{}
	al := "alloc"
	for k, p := range fn.Params {
		v := fc.freshVal(st, "p!"+sanitize(p.Name()), p.Type())
		fc.env[p] = v
		bind[p.Name()] = v
		bind[fmt.Sprintf("$%d", k)] = v
		if v.S == "V" {
			fc.assume(st, fmt.Sprintf("(or (= %s vnil) (select %s %s))", v.T, al, v.T))
		}
		if mt, ok := fc.isFrozenType(p.Type()); ok {
			fc.thaw(st, v, mt)
		}
	}
	for old, cur := range fc.alias {
		// a renamed parameter: the contract's name for it denotes the same value
		if b, ok := bind[cur]; ok {
			if _, clash := bind[old]; !clash {
				bind[old] = b
			}
		}
	}
	if fn.Signature.Recv() != nil && len(fn.Params) > 0 {
		// $recv as seen by interface contracts: the boxed receiver
		rv := bind[fn.Params[0].Name()]
		bind["$recv"] = fc.makeInterface(st, rv, fn.Params[0].Type(), fn.Params[0].Type())
		// arguments of the interface method are $0.. without the receiver
		for k := 1; k < len(fn.Params); k++ {
			bind[fmt.Sprintf("$%d", k-1)] = bind[fn.Params[k].Name()]
		}
		delete(bind, fmt.Sprintf("$%d", len(fn.Params)-1))
	}
	for _, fv := range fn.FreeVars {
		v := fc.freshVal(st, "fv!"+sanitize(fv.Name()), fv.Type())
		fc.env[fv] = v
		fc.assume(st, fmt.Sprintf("(and (not (= %s vnil)) (select %s %s))", v.T, al, v.T))
	}
	fc.params = bind
	fc.entry = st.clone()
	ev := &evalCtx{cur: st, old: fc.entry, bind: bind}
	// interface contracts this function implements: their requires are assumed, their ensures asserted
	var implBlocks []*block
	for _, in := range blk.impl {
		ib, ok := e.db.ifaces[in]
		if !ok {
			unsup("implements %s: no such iface contract", in)
		}
		ib.used = true
		implBlocks = append(implBlocks, ib)
		for _, th := range ib.theories {
			fc.theories[th] = true
		}
	}
	var reqs []string
	for _, c := range blk.byKind("requires") {
		t, _ := fc.evalOwn(c, ev, "requires")
		reqs = append(reqs, t)
		fc.assume(st, t)
	}
	for _, ib := range implBlocks {
		for _, c := range ib.byKind("requires") {
			t := fc.evalFormula(c.f, ev)
			reqs = append(reqs, t)
			fc.assume(st, t)
		}
	}
	for _, c := range blk.byKind("ghost") {
		t, ok := fc.evalOwn(c, ev, "ghost")
		if !ok {
			t = fc.fresh("g!"+sanitize(c.gname), c.gsort)
		}
		st.ghost[c.gname] = Val{T: fc.def(c.gsort, t), S: c.gsort}
	}
	fc.entry = st.clone()
	// vacuity: the preconditions must be satisfiable
	o := fc.assert(st, "cover", "vacuity.requires-satisfiable", "false", "requires ∧ theory must not be unsat", fn.Pos())
	o.wantSat = true

	hdrs := loopHeaders(fn)
	for i, h := range hdrs {
		fc.loopsOf[h] = i + 1
	}
	for _, c := range blk.byKind("loopinv") {
		if c.loop < 1 || c.loop > len(hdrs) {
			unsup("loop %d invariant: function has %d loops", c.loop, len(hdrs))
		}
	}
	for i := range hdrs {
		if len(fc.invClauses(i+1)) == 0 {
			fc.notes = append(fc.notes, fmt.Sprintf("loop %d has no invariant (state modified in the loop is havocked)", i+1))
		}
	}

	fc.implBlocks = implBlocks
	fc.runCFG(fn, st)
	// every at-clause must have matched at least one site (vacuity guard i)
	for _, c := range blk.clauses {
		if strings.HasPrefix(c.kind, "at-") && fc.anchorsHit[c] == 0 && !strings.HasPrefix(c.label, "opt:") {
			o := fc.assert(st, "unmapped", "unmapped.at."+c.anchor+"."+c.name(0), "false", "anchor matched no instruction: "+c.src, fn.Pos())
			o.pc = "true"
			o.nassume = 0
		}
	}
	fc.renumber()
	res.obligs = fc.obligs
	res.prelude = fc.queryPrefix()
	res.trusted = sortedKeys(fc.trusted)
	res.notes = fc.notes
	res.theories = sortedKeys(fc.theories)
	res.spawns = fc.spawns
	for _, o := range fc.obligs {
		if !o.prebaked {
			o.query = fc.buildQuery(o)
		}
	}
	return res
}

func sanitize(s string) string {
	if s == "" || s == "_" {
		return "anon"
	}
	return strings.Map(func(r rune) rune {
		if r >= 'a' && r <= 'z' || r >= 'A' && r <= 'Z' || r >= '0' && r <= '9' || r == '_' {
			return r
		}
		return '_'
	}, s)
}

func (fc *fnCtx) invClauses(ord int) []*clause {
	var out []*clause
	for _, c := range fc.blk.byKind("loopinv") {
		if c.loop == ord {
			out = append(out, c)
		}
	}
	return out
}

func (fc *fnCtx) visitedOfLoop(h *ssa.BasicBlock) string {
	for _, ins := range h.Instrs {
		if n, ok := ins.(*ssa.Next); ok {
			if r, ok := n.Iter.(*ssa.Range); ok {
				if ri, ok := fc.rangeOf[r]; ok {
					return ri.visited
				}
			}
		}
	}
	return ""
}

func (fc *fnCtx) assertInv(h *ssa.BasicBlock, ord int, st *state, kind string) {
	ev := &evalCtx{cur: st, old: fc.entry, bind: fc.params, visited: fc.visitedOfLoop(h)}
	for i, c := range fc.invClauses(ord) {
		t, ok := fc.evalOwn(c, ev, fmt.Sprintf("loop%d.inv", ord))
		if !ok {
			continue
		}
		var pos token.Pos
		if len(h.Instrs) > 0 {
			pos = h.Instrs[0].Pos()
		}
		fc.assert(st, "inv-"+kind, fmt.Sprintf("loop%d.%s.%s", ord, kind, c.name(i)), t, c.src, pos)
	}
	if kind == "preserve" {
		var pos token.Pos
		if len(h.Instrs) > 0 {
			pos = h.Instrs[0].Pos()
		}
		for _, hv := range fc.modsOf[h].heap {
			if frameExempt(hv) {
				continue
			}
			cur, ok := st.heap[hv]
			if !ok {
				continue
			}
			fc.assert(st, "inv-preserve", fmt.Sprintf("loop%d.preserve.frame.%s", ord, strings.Trim(hv, "|")), fc.frameGoal(cur.T, hv), "automatic frame invariant", pos)
		}
	}
}

// loopHead: assert the invariant on entry, havoc what the loop modifies, assume the invariant.
func (fc *fnCtx) loopHead(h *ssa.BasicBlock, ord int, st *state) *state {
	fc.assertInv(h, ord, st, "entry")
	blocks := loopBlocks(h)
	mod := fc.loopMods(blocks)
	fc.modsOf[h] = mod
	for _, a := range mod.cells {
		if v, ok := st.cells[a]; ok {
			st.cells[a] = Val{T: fc.fresh("lc!"+sanitize(a.Comment), v.S), S: v.S, Ty: v.Ty}
			fc.typeFacts(st, st.cells[a])
		}
	}
	for _, hv := range mod.heap {
		srt := fc.heapSort[hv]
		if srt == "" {
			srt = mod.sorts[hv]
		}
		if srt == "" {
			unsup("loop modifies heap variable %s of unknown sort", hv)
		}
		old := fc.heapVar(st, hv, srt)
		nv := fc.fresh("lh", srt)
		st.heap[hv] = Val{T: nv, S: srt}
		if hv == "alloc" {
			fc.assume(st, fmt.Sprintf("(forall ((q!r V)) (=> (select %s q!r) (select %s q!r)))", old, nv))
		}
		if hv == "ch!closed" {
			fc.assume(st, fmt.Sprintf("(forall ((q!r V)) (=> (select %s q!r) (select %s q!r)))", old, nv))
		}
		if !frameExempt(hv) {
			// automatic frame invariant (asserted again at every back edge and at every return)
			fc.assume(st, fc.frameGoal(nv, hv))
		}
	}
	for _, g := range mod.ghost {
		if v, ok := st.ghost[g]; ok {
			st.ghost[g] = Val{T: fc.fresh("lg!"+sanitize(g), v.S), S: v.S}
		}
	}
	fc.nfresh++
	pc := fmt.Sprintf("pc!%d", fc.nfresh)
	fc.decls = append(fc.decls, fmt.Sprintf("(declare-fun %s () Bool)", pc))
	// the loop head at an arbitrary iteration is reachable only if the loop was entered
	fc.assumes = append(fc.assumes, fmt.Sprintf("(=> %s %s)", pc, st.pc))
	st.pc = pc
	ev := &evalCtx{cur: st, old: fc.entry, bind: fc.params, visited: fc.visitedOfLoop(h)}
	for _, c := range fc.invClauses(ord) {
		if t, ok := fc.evalOwn(c, ev, fmt.Sprintf("loop%d.inv", ord)); ok {
			fc.assume(st, t)
		}
	}
	// vacuity: the invariants together with the path into the loop must be satisfiable
	// (a contradictory invariant would discharge everything behind the loop head)
	var hpos token.Pos
	for _, in := range h.Instrs {
		if in.Pos().IsValid() {
			hpos = in.Pos()
			break
		}
	}
	o := fc.assert(st, "cover", fmt.Sprintf("vacuity.loop%d.invariant-satisfiable", ord), "false", "loop invariant ∧ path into the loop must not be unsat", hpos)
	o.wantSat = true
	return st
}

type modSet struct {
	cells []*ssa.Alloc
	heap  []string
	sorts map[string]string
	ghost []string
}

// loopMods computes, syntactically, what the blocks of a loop may modify.
func (fc *fnCtx) loopMods(blocks map[*ssa.BasicBlock]bool) modSet {
	cells := map[*ssa.Alloc]bool{}
	heap := map[string]bool{}
	ghost := map[string]bool{}
	var rootCell func(v ssa.Value) *ssa.Alloc
	rootCell = func(v ssa.Value) *ssa.Alloc {
		switch x := v.(type) {
		case *ssa.Alloc:
			return x
		case *ssa.FieldAddr:
			return rootCell(x.X)
		case *ssa.IndexAddr:
			return rootCell(x.X)
		}
		return nil
	}
	hsorts := map[string]string{"alloc": "(Array V Bool)", "ch!closed": "(Array V Bool)", "ch!full": "(Array V Bool)"}
	heapOfAddr := func(v ssa.Value) {
		// a store through a pointer: which heap variable?  Derived from the static types the
		// same way fieldAddr names heap variables.
		switch x := v.(type) {
		case *ssa.FieldAddr:
			var names []string
			var cur ssa.Value = x
			var baseT types.Type
			for {
				fa, ok := cur.(*ssa.FieldAddr)
				if !ok {
					break
				}
				stt := fa.X.Type().Underlying().(*types.Pointer).Elem()
				names = append([]string{stt.Underlying().(*types.Struct).Field(fa.Field).Name()}, names...)
				baseT = stt
				cur = fa.X
			}
			if a, ok := cur.(*ssa.Alloc); ok && !a.Heap {
				return
			}
			t := baseT
			name := typeName(t)
			var ft types.Type
			for i, n := range names {
				stt := t.Underlying().(*types.Struct)
				for k := 0; k < stt.NumFields(); k++ {
					if stt.Field(k).Name() == n {
						ft = stt.Field(k).Type()
					}
				}
				if i == 0 {
					name += "!" + n
				} else {
					name += "." + n
				}
				if _, isS := ft.Underlying().(*types.Struct); isS && !fc.e.sorts.isDatatype(ft) {
					t = ft
					continue
				}
				break
			}
			heap["|H!"+name+"|"] = true
			hsorts["|H!"+name+"|"] = "(Array V " + fc.sortOf(ft) + ")"
		default:
			if pt, ok := v.Type().Underlying().(*types.Pointer); ok {
				if stt, isS := pt.Elem().Underlying().(*types.Struct); !isS {
					es := fc.sortOf(pt.Elem())
					heap["|Hcell!"+sortKey(es)+"|"] = true
					hsorts["|Hcell!"+sortKey(es)+"|"] = "(Array V " + es + ")"
				} else {
					// whole-struct store / allocation: all field heap vars of that struct
					for k := 0; k < stt.NumFields(); k++ {
						ft := stt.Field(k).Type()
						if _, isS := ft.Underlying().(*types.Struct); isS && !fc.e.sorts.isDatatype(ft) {
							continue
						}
						n := "|H!" + typeName(pt.Elem()) + "!" + stt.Field(k).Name() + "|"
						heap[n] = true
						hsorts[n] = "(Array V " + fc.sortOf(ft) + ")"
					}
				}
			}
		}
	}
	addChan := func(elem types.Type, kinds ...string) {
		es := fc.sortOf(elem)
		for _, k := range kinds {
			hv, hs := fc.seqVar(k, es)
			heap[hv] = true
			hsorts[hv] = hs
		}
	}
	addMap := func(t types.Type) {
		mt := t.Underlying().(*types.Map)
		d, v, ds, vs := fc.mapVars(mt)
		heap[d], heap[v] = true, true
		hsorts[d], hsorts[v] = ds, vs
	}
	var calleeMods func(c *ssa.CallCommon)
	calleeMods = func(c *ssa.CallCommon) {
		var blk *block
		if c.IsInvoke() {
			blk, _ = fc.ifaceContract(c.Value.Type(), c.Method.Name())
		} else if f, ok := c.Value.(*ssa.Function); ok {
			blk = fc.e.db.funcs[canonName(f)]
		} else if mc, ok := c.Value.(*ssa.MakeClosure); ok {
			blk = fc.e.db.funcs[canonName(mc.Fn.(*ssa.Function))]
		}
		if b, ok := c.Value.(*ssa.Builtin); ok {
			switch b.Name() {
			case "delete":
				addMap(c.Args[0].Type())
			case "close":
				heap["ch!closed"] = true
			case "copy":
				if u, ok := c.Args[0].(*ssa.UnOp); ok {
					if a := rootCell(u.X); a != nil {
						cells[a] = true
					}
				}
			}
		}
		if blk == nil {
			return
		}
		if blk.freshRes {
			heap["alloc"] = true
		}
		for _, lv := range blk.modifies {
			// resolve statically: the last path component names the field; map contents by type
			heap["?"+lv+"@"+blk.name] = true
		}
	}
	var rangeGhosts []string
	for b := range blocks {
		for _, ins := range b.Instrs {
			switch i := ins.(type) {
			case *ssa.Alloc:
				if i.Heap {
					heap["alloc"] = true
					heapOfAddr(i)
				}
			case *ssa.Store:
				if a := rootCell(i.Addr); a != nil && !a.Heap {
					cells[a] = true
				} else {
					heapOfAddr(i.Addr)
				}
			case *ssa.MapUpdate:
				addMap(i.Map.Type())
			case *ssa.MakeMap:
				heap["alloc"] = true
				addMap(i.Type())
			case *ssa.MakeChan, *ssa.MakeClosure:
				heap["alloc"] = true
				heap["ch!closed"] = true
			case *ssa.Send:
				addChan(i.Chan.Type().Underlying().(*types.Chan).Elem(), "sent")
			case *ssa.UnOp:
				if i.Op == token.ARROW {
					addChan(i.X.Type().Underlying().(*types.Chan).Elem(), "rcvd")
				}
			case *ssa.Select:
				for _, s := range i.States {
					if s.Dir == types.SendOnly {
						addChan(s.Chan.Type().Underlying().(*types.Chan).Elem(), "sent")
					} else {
						addChan(s.Chan.Type().Underlying().(*types.Chan).Elem(), "rcvd")
					}
				}
				if !i.Blocking {
					heap["ch!full"] = true
				}
			case *ssa.Range:
				// the visited ghost of an inner loop
				rangeGhosts = append(rangeGhosts, "")
			case *ssa.Call:
				calleeMods(&i.Call)
			case *ssa.Defer:
				calleeMods(&i.Call)
			}
		}
	}
	// ghosts: those assigned by at-set clauses anywhere (anchors are matched dynamically, so
	// conservatively every ghost with an at-set clause is havocked), plus visited sets
	for _, c := range fc.blk.byKind("at-set") {
		if fc.anchorMayFireIn(blocks, c.anchor) {
			ghost[c.gname] = true
		}
	}
	// visited ghosts of every range statement inside the loop
	for b := range blocks {
		for _, ins := range b.Instrs {
			if n, ok := ins.(*ssa.Next); ok {
				if r, ok := n.Iter.(*ssa.Range); ok {
					if ri, ok := fc.rangeOf[r]; ok {
						ghost[ri.visited] = true
					}
				}
			}
		}
	}
	var ms modSet
	ms.sorts = hsorts
	for a := range cells {
		ms.cells = append(ms.cells, a)
	}
	sort.Slice(ms.cells, func(i, j int) bool { return ms.cells[i].Pos() < ms.cells[j].Pos() })
	for _, h := range sortedKeys(heap) {
		if strings.HasPrefix(h, "?") {
			// callee modifies clause: resolve by field name / map type against declared heap vars
			lv := h[1:strings.Index(h, "@")]
			ms.heap = append(ms.heap, fc.heapVarsOfModifies(lv, h[strings.Index(h, "@")+1:])...)
			continue
		}
		ms.heap = append(ms.heap, h)
	}
	ms.ghost = sortedKeys(ghost)
	return ms
}

// heapVarsOfModifies maps a callee's modifies clause to heap variable names, statically.
func (fc *fnCtx) heapVarsOfModifies(lv, callee string) []string {
	blk := fc.e.db.funcs[callee]
	if blk == nil {
		blk = fc.e.db.ifaces[callee]
	}
	for _, k := range []string{"sent", "rcvd"} {
		if strings.HasPrefix(lv, k+"(") {
			// all sequence variables of that kind (element sort unknown statically)
			var all []string
			for hv := range fc.heapSort {
				if strings.HasPrefix(hv, "|ch!"+k+"!") {
					all = append(all, hv)
				}
			}
			sort.Strings(all)
			return all
		}
	}
	if strings.HasPrefix(lv, "closed(") {
		return []string{"ch!closed"}
	}
	if strings.HasPrefix(lv, "full(") {
		return []string{"ch!full"}
	}
	// find the Go types: the clause is  <param>.<field>  or <param>.<field>[]
	isMap := strings.HasSuffix(lv, "[]")
	src := strings.TrimSuffix(lv, "[]")
	parts := strings.Split(src, ".")
	fn := fc.e.funcByName[callee]
	if fn == nil || len(parts) != 2 {
		// unknown: havoc every declared heap variable (sound, imprecise)
		var all []string
		for hv := range fc.heapSort {
			if strings.HasPrefix(hv, "|H!") || strings.HasPrefix(hv, "|m") || strings.HasPrefix(hv, "|Hcell!") {
				all = append(all, hv)
			}
		}
		sort.Strings(all)
		return all
	}
	for _, p := range fn.Params {
		if p.Name() != parts[0] {
			continue
		}
		pt, ok := p.Type().Underlying().(*types.Pointer)
		if !ok {
			break
		}
		stt, ok := pt.Elem().Underlying().(*types.Struct)
		if !ok {
			break
		}
		for k := 0; k < stt.NumFields(); k++ {
			if stt.Field(k).Name() == parts[1] {
				if isMap {
					if mt, ok := stt.Field(k).Type().Underlying().(*types.Map); ok {
						d, v, _, _ := fc.mapVars(mt)
						return []string{d, v}
					}
				}
				return []string{"|H!" + typeName(pt.Elem()) + "!" + parts[1] + "|"}
			}
		}
	}
	return nil
}

// execReturn: postconditions, exit assertions, interface contracts, frame.
func (fc *fnCtx) execReturn(st *state, r *ssa.Return) {
	if fc.retHook != nil {
		fc.retHook(st, r)
		return
	}
	bind := map[string]Val{}
	for k, v := range fc.params {
		bind[k] = v
	}
	for k, x := range r.Results {
		v := fc.val(x)
		v.Ty = fc.fn.Signature.Results().At(k).Type()
		bind[fmt.Sprintf("result%d", k)] = v
		if k == 0 {
			bind["result"] = v
		}
		if n := fc.fn.Signature.Results().At(k).Name(); n != "" && n != "_" {
			bind[n] = v
		}
	}
	fc.runAnchors(st, "return", func(string) bool { return true }, 0, bind, false, "true", r.Pos())
	// cover (thorough tier): the assumptions collected on the way to this return are consistent
	fc.nret++
	co := fc.assert(st, "cover", fmt.Sprintf("vacuity.return%d.assumptions-consistent", fc.nret), "false", "path condition ∧ assumptions at this return must not be unsat", r.Pos())
	co.wantSat = true
	co.thoroughOnly = true
	ev := &evalCtx{cur: st, old: fc.entry, bind: bind}
	for i, c := range fc.blk.byKind("ensures") {
		t, ok := fc.evalOwn(c, ev, "ensures")
		if !ok {
			continue
		}
		o := fc.assert(st, "post", "post."+c.name(i), t, c.src, r.Pos())
		if len(c.props) > 0 {
			o.props = c.props
		}
	}
	for i, c := range fc.blk.byKind("exit") {
		if t, ok := fc.evalOwn(c, ev, "exit"); ok {
			fc.assert(st, "post", "exit."+c.name(i), t, c.src, r.Pos())
		}
	}
	for _, ib := range fc.implBlocks {
		for i, c := range ib.byKind("ensures") {
			fc.assert(st, "post", "implements."+ib.name+"."+c.name(i), fc.evalFormula(c.f, ev), c.src, r.Pos())
		}
	}
	fc.frameCheck(st, r.Pos())
}

// frameCheck: every heap variable equals its entry value except at the
// locations named by modifies clauses and at references allocated by this call.
func (fc *fnCtx) frameAllowed() map[string][]string {
	if fc.allowedLocs != nil {
		return fc.allowedLocs
	}
	allowed := map[string][]string{} // heap var -> refs
	ev := &evalCtx{cur: fc.entry, old: fc.entry, bind: fc.params}
	for _, lvt := range fc.blk.modifies {
		lv := fc.evalLvalue(lvt, ev)
		if lv.chKind != "" {
			continue
		}
		if lv.mtype != nil {
			d, v, _, _ := fc.mapVars(lv.mtype)
			allowed[d] = append(allowed[d], lv.mref)
			allowed[v] = append(allowed[v], lv.mref)
		} else {
			allowed[lv.addr.hv] = append(allowed[lv.addr.hv], lv.addr.ref)
		}
	}
	fc.allowedLocs = allowed
	return allowed
}

func frameExempt(hv string) bool {
	return hv == "alloc" || strings.HasPrefix(hv, "ch!") || strings.HasPrefix(hv, "|ch!")
}

func (fc *fnCtx) frameGoal(cur, hv string) string {
	conds := []string{"(select alloc q!r)"}
	for _, r := range fc.frameAllowed()[hv] {
		conds = append(conds, fmt.Sprintf("(not (= q!r %s))", r))
	}
	return fmt.Sprintf("(forall ((q!r V)) (=> (and %s) (= (select %s q!r) (select %s q!r))))", strings.Join(conds, " "), cur, hv)
}

func (fc *fnCtx) frameCheck(st *state, pos token.Pos) {
	for _, hv := range sortedKeysV(st.heap) {
		if frameExempt(hv) {
			continue
		}
		cur := st.heap[hv].T
		if cur == hv {
			continue
		}
		fc.assert(st, "frame", "frame."+strings.Trim(hv, "|"), fc.frameGoal(cur, hv), "modifies "+strings.Join(fc.blk.modifies, " "), pos)
	}
}

func sortedKeysV(m map[string]Val) []string {
	out := make([]string, 0, len(m))
	for k := range m {
		out = append(out, k)
	}
	sort.Strings(out)
	return out
}

// renumber gives obligations with the same base name a source-order ordinal.
func (fc *fnCtx) renumber() {
	groups := map[string][]*oblig{}
	var order []string
	for _, o := range fc.obligs {
		base := o.name
		if i := strings.LastIndex(base, "#"); i >= 0 && strings.HasPrefix(o.name[strings.LastIndex(o.name, "/")+1:], "safety.") {
			base = base[:i]
		}
		o.name = base
		if _, ok := groups[base]; !ok {
			order = append(order, base)
		}
		groups[base] = append(groups[base], o)
	}
	for _, base := range order {
		g := groups[base]
		if len(g) == 1 {
			continue
		}
		sort.SliceStable(g, func(i, j int) bool { return g[i].tpos < g[j].tpos })
		for i, o := range g {
			o.name = fmt.Sprintf("%s#%d", base, i+1)
		}
	}
}

func posLess(a, b string) bool {
	fa, la := splitPos(a)
	fb, lb := splitPos(b)
	if fa != fb {
		return fa < fb
	}
	return la < lb
}

func splitPos(p string) (string, int) {
	i := strings.LastIndex(p, ":")
	if i < 0 {
		return p, 0
	}
	n := 0
	fmt.Sscanf(p[i+1:], "%d", &n)
	return p[:i], n
}

// anchorMayFireIn: static over-approximation of "some instruction matched by this anchor lies in blocks".
func (fc *fnCtx) anchorMayFireIn(blocks map[*ssa.BasicBlock]bool, anchor string) bool {
	a, err := parseAnchor(anchor)
	if err != nil {
		return true
	}
	for b := range blocks {
		for _, ins := range b.Instrs {
			switch i := ins.(type) {
			case *ssa.Call:
				short, full := calleeShort(&i.Call)
				if a.kind == "call" && (a.arg == short || a.arg == full) {
					return true
				}
				if a.kind == "append" && short == "append" {
					return true
				}
				if a.kind == "close" && short == "close" {
					return true
				}
			case *ssa.Defer:
				short, full := calleeShort(&i.Call)
				if (a.kind == "call" || a.kind == "close") && (a.arg == short || a.arg == full || short == "close") {
					return true
				}
			case *ssa.Go:
				if a.kind == "go" {
					return true
				}
			case *ssa.Store:
				if a.kind == "store" && fc.storeTarget(i) == a.arg {
					return true
				}
			case *ssa.Range:
				if a.kind == "range" {
					return true
				}
			case *ssa.Send:
				if a.kind == "send" {
					return true
				}
			case *ssa.UnOp:
				if a.kind == "recv" && i.Op == token.ARROW {
					return true
				}
			case *ssa.Select:
				if a.kind == "send" || a.kind == "recv" {
					return true
				}
			case *ssa.Return:
				if a.kind == "return" {
					return true
				}
			}
		}
	}
	return false
}

// runCFG executes the (loop-cut, acyclic) control-flow graph of fn from state st.
func (fc *fnCtx) runCFG(fn *ssa.Function, st *state) {
	out := map[*ssa.BasicBlock]*state{}
	edge := map[[2]*ssa.BasicBlock]string{}
	for _, b := range rpo(fn) {
		var ins []inEdge
		edgeIn := map[*ssa.BasicBlock]string{}
		if b.Index == 0 {
			ins = append(ins, inEdge{st: st, cond: st.pc})
		}
		for _, p := range b.Preds {
			if isBackEdge(p, b) {
				continue
			}
			ps, ok := out[p]
			if !ok {
				continue
			}
			c := edge[[2]*ssa.BasicBlock{p, b}]
			ins = append(ins, inEdge{st: ps, cond: c})
			edgeIn[p] = c
		}
		if len(ins) == 0 {
			continue
		}
		cur := fc.merge(ins)
		if ord, isHdr := fc.loopsOf[b]; isHdr {
			cur = fc.loopHead(b, ord, cur)
		}
		conds := fc.execBlock(b, cur, edgeIn)
		if conds == nil {
			continue
		}
		out[b] = cur
		for k, s := range b.Succs {
			c := fc.def("Bool", conds[k])
			if isBackEdge(b, s) {
				bs := cur.clone()
				bs.pc = c
				fc.assertInv(s, fc.loopsOf[s], bs, "preserve")
				continue
			}
			edge[[2]*ssa.BasicBlock{b, s}] = c
		}
	}
}

// inlineCall executes the body of a /repo function that has no contract in place of the call
// (extract-method refactorings must not make a caller undecidable).  The caller's anchors apply
// to the inlined instructions; loops of the callee have no invariant (what they modify is havocked).
func (fc *fnCtx) inlineCall(st *state, callee *ssa.Function, args []Val) []Val {
	if fc.inlineDepth >= 3 || len(callee.Blocks) == 0 {
		unsup("call to %s has no contract (and cannot be inlined)", canonName(callee))
	}
	for _, f := range fc.inlineStack {
		if f == callee {
			unsup("recursive call to %s has no contract", canonName(callee))
		}
	}
	fc.inlineDepth++
	fc.inlineStack = append(fc.inlineStack, callee)
	fc.notes = append(fc.notes, "inlined uncontracted callee "+canonName(callee))
	for k, p := range callee.Params {
		v := args[k]
		v.Ty = p.Type()
		fc.env[p] = v
	}
	for _, h := range loopHeaders(callee) {
		if _, ok := fc.loopsOf[h]; !ok {
			fc.loopsOf[h] = 0 // no invariant clauses
		}
	}
	savedDefers := st.defers
	savedHook := fc.retHook
	savedBlock := fc.curBlock
	entry := st.clone()
	entry.defers = nil
	type ret struct {
		st   *state
		vals []Val
	}
	var rets []ret
	fc.retHook = func(rs *state, r *ssa.Return) {
		var vals []Val
		for _, x := range r.Results {
			vals = append(vals, fc.val(x))
		}
		rets = append(rets, ret{rs.clone(), vals})
	}
	fc.runCFG(callee, entry)
	fc.retHook = savedHook
	fc.curBlock = savedBlock
	fc.inlineDepth--
	fc.inlineStack = fc.inlineStack[:len(fc.inlineStack)-1]
	if len(rets) == 0 {
		// the callee never returns (panics / loops forever): the code after the call is unreachable
		st.pc = "false"
		var vals []Val
		for k := 0; k < callee.Signature.Results().Len(); k++ {
			vals = append(vals, fc.freshVal(st, "nores", callee.Signature.Results().At(k).Type()))
		}
		return vals
	}
	var ins []inEdge
	for _, r := range rets {
		ins = append(ins, inEdge{st: r.st, cond: r.st.pc})
	}
	merged := fc.merge(ins)
	// result values: ite over the return sites
	n := callee.Signature.Results().Len()
	vals := make([]Val, n)
	for k := 0; k < n; k++ {
		t := rets[len(rets)-1].vals[k].T
		for i := len(rets) - 2; i >= 0; i-- {
			t = fmt.Sprintf("(ite %s %s %s)", rets[i].st.pc, rets[i].vals[k].T, t)
		}
		vals[k] = Val{T: fc.def(rets[0].vals[k].S, t), S: rets[0].vals[k].S, Ty: callee.Signature.Results().At(k).Type()}
	}
	// continue in the caller with the merged state
	*st = *merged
	st.defers = savedDefers
	return vals
}

// evalOwn evaluates a clause of the function's own contract.  A hole that names something that no
// longer exists in the function (a renamed or removed local, field or parameter) means the clause
// binds to nothing: that is reported once as a failed `unmapped` obligation (vacuity guard i) and the
// clause is skipped, instead of making the whole function undecidable.
func (fc *fnCtx) evalOwn(c *clause, ev *evalCtx, what string) (t string, ok bool) {
	defer func() {
		if r := recover(); r != nil {
			u, isU := r.(unsupported)
			if !isU || !(strings.Contains(u.msg, "unknown name") || strings.Contains(u.msg, "no field") || strings.Contains(u.msg, "is declared") || strings.Contains(u.msg, "unbound")) {
				panic(r)
			}
			if !fc.unmappedClauses[c] {
				fc.unmappedClauses[c] = true
				o := &oblig{name: fc.name + "/unmapped." + what + "." + c.name(0), kind: "unmapped", fn: fc.name, goal: "false", result: "sat", solver: "structural",
					clause: c.src, model: "the clause cannot be bound to the current code: " + u.msg, trivial: false}
				if fc.blk != nil {
					o.props = fc.blk.props
				}
				o.pos = fmt.Sprintf("%s:%d", fc.blk.file, c.line)
				o.prebaked = true
				fc.obligs = append(fc.obligs, o)
			}
			t, ok = "true", false
		}
	}()
	return fc.evalFormula(c.f, ev), true
}
