package main

// Per-property text that goes into the evidence: what the obligations mean for the
// property, which clauses of the property this family does NOT decide, and the
// assumptions beyond the generic trusted base.

func init() {
	propMeta = map[string]propInfo{
		"C01": {
			explanation: "doUpdate, doSync, doRefilter, doList, createKey, createEntry and the request loop _cache.run are verified against contracts whose postconditions are the reference semantics of the property (whole-view: frame for all other keys + case table for the touched key; never-regress; exactness of a relist for every key listed once; missing-from-list => absent; every cached object accepted), with inductive invariants for both loops of doSync and a zero-annotation panic sweep.",
			notDecided:  []string{"keys listed more than once in ONE list: only the weak clauses (well-formedness, never-regress, provenance, crash-freedom) are asserted; the property names duplicates only in its no-crash clause", "'wedges': covered only as 'every request handler of _cache.run is straight-line and answers exactly once'"},
			assumptions: []string{"Filter.Accept is a pure function of the object (proved for the library's filters under C18; assumed for user FN filters)", "strconv.Atoi succeeds exactly on numeric strings and is a function of its argument"},
		},
		"C02": {
			explanation: "Ghost mirror of the content updated at every append of an event in doSync/doUpdate: each event is well-formed for the mirror (Create only if absent, Update only if strictly newer, Delete only if present), the mirror equals the new content at return, and a per-key ghost counter shows exactly one event for each changed key listed once and none for unchanged keys; doUpdate emits at most one event and none iff the view is unchanged. controller.run and filterSubscription.run pass exactly the events returned by the cache mutation of the same handler to distributeEvents; controller.distributeEvents hands every event over exactly once, in order.",
			notDecided:  []string{"keys listed more than once in one list may get two well-formed events"},
			assumptions: []string{"as C01"},
		},
		"C03": {
			explanation: "Handler contract of controller.run for a list result, proved from ANY state satisfying the loop invariant (nothing about watcher, session or earlier faults is assumed): the exact value of extractList(result.list) is passed to cache.sync, the events it returns are published iff the controller was already initialised, watcher.reset gets exactly listResourceVersion(result.list), failures are fatal (C14); extractList/listResourceVersion/executeList verified against the assumed meaning of the apimachinery helpers; cache.sync = doSync (C01) applied atomically (C15).",
			notDecided:  []string{"'after at most one further relist' / 'even if the watch never delivers': needs a relist to HAPPEN, which is C13's liveness remainder", "a stale watch Delete that arrives after the list was applied is applied as a delete (left open by C01)"},
			assumptions: []string{"API lists have unique keys (otherwise only C01's weak clauses apply)", "meta.ListAccessor / meta.ExtractList contracts"},
		},
		"C04": {
			explanation: "_watchSession.connect passes ResourceVersion = session version and Watch = true; _watchSession.run forwards the translation of every object frame in order (dropping only on a full buffer), skips Status/unknown frames and ends only its own lifecycle; _watcher.run keeps curVersion = version of the last event taken (or the restart version), restarts sessions and schedules retries with exactly that version, replaces its output channel only in the handler of a controller reset, never routes a retry through the controller's reset channel, and answers events() with the current output channel.",
			notDecided:  []string{"'within the reconnect delay' (timing)", "that the API server replays everything after the resume version (client contract)"},
			assumptions: []string{"time.AfterFunc / context.WithCancel contracts", "the watcher is the only receiver of its session's events (ownership)"},
		},
		"C05": {
			explanation: "Per-hop contracts: _subscription.run and the typed subscription.run deliver an in-order subsequence of what they received (ghost embedding), every received event is forwarded, dropped on a full buffer or (typed) skipped as foreign, never duplicated, and with no drop the output equals the input; publisher.distributeEvent sends the event to every registered subscription exactly once; controller.distributeEvents hands over every event exactly once in order; publisher.run publishes the parent event unmodified and serialises registration and distribution; a composition lemma chains hops. Cache monotonicity: cache.update/sync returns before the events it produced are published (C02) and a cached version is only replaced by a strictly newer one (C01).",
			notDecided:  []string{"arbitrary depth is by induction on the hop lemma (the induction itself is not an SMT obligation)", "goroutine interleavings are covered by per-handler reasoning, not by exploration"},
			assumptions: []string{"Go channels are FIFO", "the consumer keeps its backlog below EventBufsiz (premise of the property)"},
		},
		"C06": {
			explanation: "filterSubscription.run: after Ready every parent event is passed unmodified to the private cache and exactly its result is published; a Refilter with a new filter lists the parent cache and refilters the private cache in the same handler, then records the filter (invariant: the filter of the private cache is the current filter); lemmas over the contracts: one-step commutation of filt with a well-formed parent event, refilter rebuilds filt(f2, P), nested filters compose as conjunction.",
			notDecided:  []string{"convergence when parent events are in flight at the moment of a List(): a protocol-level invariant, assumed", "buffer overruns (premise)"},
			assumptions: []string{"no parent event in flight at list time for exactness", "as C01, C02"},
		},
		"C07": {
			explanation: "Refilter handler: isNew is computed with FiltersEqual on the current filter (sound by C17), an unchanged filter touches neither cache nor output on any path, a new filter refilters with the parent list read in this handler and publishes exactly the returned events once ready; doSync's per-key counter gives exactly one event per changed key; lemma: between filt(f1,P) and filt(f2,P) a key changes iff its membership changes (Delete for rejected cached objects, Create for newly accepted parent objects, never an Update), equal filters change nothing.",
			notDecided:  []string{"parent unchanged between refilters (premise of the A->B->A clause)"},
			assumptions: []string{"no parent event in flight (premise of the property)"},
		},
		"C08": {
			explanation: "controller.run closes readych only in a handler in which cache.sync returned without error, never on an error path, never twice, publishes nothing before; filterSubscription.run: state-machine invariants I1-I7, readych closed only after the parent's readiness was observed, a filter was supplied if deferred, and the private cache was synced with a parent list read in that handler (or is untouched and rejects everything); constructors establish run's preconditions at the go statement; SubscribeForFilter/CloneForFilter pass filter.All() (rejects everything) with deferReady; Ready() pass-throughs of publisher, filterController, typed wrappers return the parent's channel.",
			notDecided:  []string{},
			assumptions: []string{"the watcher hands out no output channel before its first reset (proved as an invariant of _watcher.run, used as an assumption in controller.run)", "in-package tests that call newFilterSubscription(..., filter.Null(), true) violate the constructor precondition; tests are not call sites under contract"},
		},
		"C09": {
			explanation: "Each generated join: the destination is dstController.CloneForFilter() (deferred readiness, C08); all four monitor callbacks are set, initialise refilters with filterFn(initial objects), the others with filterFn(source cache content read in that callback), no Refilter on a list error; only objects the join created are closed; the monitor is tied to the clone's Done; wrappers pass the selection rule of C19; IngressPods ties its intermediate join to the result.",
			notDecided:  []string{"quiescent convergence for all relative timings (C06's in-flight assumption)", "exploration of histories"},
			assumptions: []string{"the selection function returns a non-nil filter (proved for the library's PodsFilter/ServicesFilter)", "C06, C16, C19"},
		},
		"C10": {
			explanation: "Structural blocking-effect obligations generated from the SSA of all of /repo: every send on a consumer-facing channel (_subscription.outch, filterSubscription.outch, typed subscription.outch, watcher and session output) is a case of a select with default; every other blocking operation is one of the sanctioned shapes (guarded select, reply receive/send, join wait, parent-driven loop); plus the hop contracts of C05 (what is delivered is an in-order subsequence; drops only at select-default).",
			notDecided:  []string{"'keep receiving every event' in the liveness sense (fair scheduling)"},
			assumptions: []string{"select/default is taken only when no case can proceed (Go semantics)"},
		},
		"C11": {
			explanation: "Down: constructors spawn WatchChannel with the creator's ShuttingDown() channel (checked at the call sites in builder.Create, createSubscription, newFilterSubscription) or end when the parent's event channel closes; exits of _subscription.run, filterSubscription.run, typed subscription.run close their output exactly once after the loop. Not up / not sideways: every Close/Shutdown call in a derived object targets the object that feeds it or one it created (publisher, filterSubscription, filterController, typed wrappers, monitor, joins).",
			notDecided:  []string{"'eventually closes every descendant' is liveness over the whole tree: what is proved is that every link of the cascade exists and nothing else is closed"},
			assumptions: []string{"go-lifecycle contract (WatchChannel initiates shutdown when the channel fires)"},
		},
		"C12": {
			explanation: "Safety skeleton only: lifecycle protocol in every run loop (ShutdownInitiated exactly once and before ShutdownCompleted, no close of a closed channel, no send on a channel the actor closed); guarded API (structural: every blocking operation of a stub is a select with a lifecycle case or a reply receive); cancel-before-wait for the watch session (D7); join-before-complete for controller, lister, publisher, monitor.",
			notDecided:  []string{"'returns in bounded time from every state and schedule'", "'every goroutine exits' / no leak", "Subscribe/Clone racing with shutdown", "these are termination/liveness statements over all goroutines; no per-function contract expresses them and they are never reported as proved"},
			assumptions: []string{"client List/Watch return once their context is cancelled (premise of the property)"},
		},
		"C13": {
			explanation: "_lister.run: exactly one of {waiting for tick, list running, result pending} holds at every iteration, l.list() is called only when nothing is in flight, after a result is delivered the ticker is reset before its channel is read again; _ticker.run over a ghost timer state: a tick is pending xor the timer is running, every handler re-establishes it, the receive from timer.C cannot block; nextPeriod stays within the fuzz window (reals).",
			notDecided:  []string{"'keeps issuing list calls for as long as it runs' as a temporal statement (needs timers to fire and fair scheduling)", "'no earlier than about one period' in wall time"},
			assumptions: []string{"time.Timer semantics as stated in the contract (go.mod says go 1.18: buffered timer channel)", "floats as reals"},
		},
		"C14": {
			explanation: "controller.run: on each list failure path (result.err, no list accessor, non-object item) the handler initiates shutdown with a non-nil cause and does not call cache.sync, close(readych), distributeEvents or watcher.reset (ghost 'failure' + invariant 'list failures are fatal'); executeList/extractList turn client errors, non-lists and lists of non-objects into errors; Close() passes nil; watch side: _watchSession.run only initiates its own lifecycle, _watcher.run initiates shutdown only on a shutdown request.",
			notDecided:  []string{"'the whole subtree shuts down' is C11's cascade"},
			assumptions: []string{"errors.Wrap(err) is nil iff err is nil; go-lifecycle reports the error passed to ShutdownInitiated"},
		},
		"C15": {
			explanation: "Ownership (structural, generated from SSA): every access to _cache.items/_cache.filter is in run, functions only called from it, or newCache on the fresh object; run is spawned by exactly one go statement. Atomicity: every request handler of _cache.run is a single call with no channel operation before the reply and replies exactly once with the value computed in that handler; stubs send one request with the caller's arguments; doList returns a freshly built slice with exactly the cached objects, keys distinct.",
			notDecided:  []string{"'no data races the race detector can produce': dynamic; replaced by the static ownership obligation", "linearizability itself is the standard argument for a single-threaded server (trusted reasoning, not an SMT obligation)"},
			assumptions: []string{"request/response pairing through the per-request buffered channel (that a reply is a well-formed snapshot / event batch / subscription is a channel invariant by element type, asserted at the actor's reply sends; that it is the reply to THIS request rests on the channel being created per request and sent once)"},
		},
		"C16": {
			explanation: "monitor.run: OnInitialize is the first callback, happens at most once, with the list read after Ready was observed; afterwards exactly one callback per received event, of the matching kind and with the event's object; no callback after shutdown is initiated; no callback at all if Done fires before Ready; ShutdownCompleted is last. Typed layer: each adapter closure calls the typed callback of the same kind with the adapted object iff adaptation succeeded.",
			notDecided:  []string{"'with the cache content AT readiness': the list is read after Ready is observed; equality with the content at that instant is a timing statement"},
			assumptions: []string{"none beyond the go-lifecycle contract: that received events carry one of the three types and a non-nil object is a channel invariant by element type, asserted at every send in /repo (structural obligation chaninv-coverage) and assumed at the receive"},
		},
		"C17": {
			explanation: "Soundness: every Equals and FiltersEqual is proved against 'result => the two filters accept the same objects', with accept defined per filter type (C18/C19) and representations immutable (generated structural obligations). Completeness: every Equals, compareFilterList and FiltersEqual is also proved against 'built the same way => result' (relation bs, defined per filter type), and one lemma per constructor (Null, All, Not, And, Or, NSName, Selector, Labels, LabelSelector, NodeFilter, InvolvedFilter, SelectorMatchFilter) shows over the constructor's own postconditions that two calls with the same arguments give bs-related filters for which FiltersEqual returns true. Workload filters: a lemma shows that source lists with the same elements in any order give filters that accept the same objects; for all seven PodsFilter functions (deployment, replicaset, daemonset, statefulset, job, replication controller, service) and for ingress.ServicesFilter the filters are moreover proved to compare Equal: the comparator closure is under contract, sort.Slice leaves the slice sorted by it, the sorted arrangement of distinct-keyed sources is unique (lemma by induction), a second contract view of PodsFilter ties its children to that arrangement, and a per-package lemma over two calls concludes FiltersEqual.",
			notDecided:  []string{"order-independence of the seven PodsFilter functions is proved for sources with pairwise distinct namespace/name (with duplicates sort.Slice is not stable and the sentence itself is unclear); ingress.ServicesFilter needs no such premise"},
			assumptions: []string{"reflect.DeepEqual / labels.Equals imply equal abstract value for the compared types", "reflect.DeepEqual is reflexive on selectors and holds for nsNameFilter / nodeFilter values with the same map contents and slice elements", "labels.SelectorFromSet / LabelSelectorAsSelector are functions of their argument", "sort.Slice leaves the slice sorted by its less function (stated through the verified comparator contract)", "GetNamespace()/GetName() return the ObjectMeta fields the comparator reads"},
		},
		"C18": {
			explanation: "Each Accept body is proved equal to accept(self, obj), where accept is axiomatised per filter type by the property's sentences; constructors are proved to establish the representation their Accept relies on.",
			notDecided:  []string{"the meaning of Kubernetes label selectors (assumed library contract)"},
			assumptions: []string{"labels.SelectorFromSet / LabelSelectorAsSelector / Selector.Matches contracts", "objects and label maps are immutable while cached"},
		},
		"C19": {
			explanation: "PodsFilter of the seven workload kinds, NodeFilter, InvolvedFilter, SelectorMatchFilter proved against 'accepts iff some given workload in the pod's namespace selects it' etc.; two clauses of the replication-controller filter fail and are known findings.",
			notDecided:  []string{"the two replication-controller clauses recorded as known findings"},
			assumptions: []string{"sort.Slice rebinds the slice to a permutation; Kubernetes label matching"},
		},
		"C20": {
			explanation: "One contract template instantiated for each of the 12 typed packages (adaptObject/adaptList, typed cache Get/List, wrapEvent, typed subscription hop with foreign events skipped, pass-throughs, monitor adapters skip foreign objects, NewClient against a 12-row API resource table), the client request builders (call sequence Get.[Prefix].Namespace.Resource.VersionedParams), and the 8 generated joins (C09).",
			notDecided:  []string{"'the generated sources equal their templates instantiated for the type': equality of program texts is translation validation, a different family", "side-by-side random scenarios and HTTP request capture"},
			assumptions: []string{"the meaning of the client-go request chain (URL, all namespaces for an empty namespace)"},
		},
	}
}
