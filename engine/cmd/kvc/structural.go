package main

// Structural (ownership / immutability / blocking-effect / wiring) obligations,
// decided on the SSA of /repo by the engine itself (back end "structural").
// They are frame/ownership conditions of the contracts: the proofs by SMT rely on
// them, and they are generated from the current source like every other obligation.

import (
	"fmt"
	"go/token"
	"go/types"
	"sort"
	"strings"

	"golang.org/x/tools/go/ssa"
)

func (e *engine) structOblig(name string, props []string, ok bool, clause, detail string, pos token.Pos) *oblig {
	o := &oblig{name: "structural/" + name, kind: "structural", fn: "structural", goal: clause, clause: clause, props: props, solver: "structural", tpos: pos}
	if pos.IsValid() {
		p := e.fset.Position(pos)
		o.pos = fmt.Sprintf("%s:%d", p.Filename, p.Line)
	}
	if ok {
		o.result = "unsat"
	} else {
		o.result = "sat"
		o.model = detail
	}
	return o
}

// allRepoFuncs returns every function with a body in the loaded /repo packages, sorted.
func (e *engine) allRepoFuncs() []*ssa.Function {
	var out []*ssa.Function
	for _, f := range e.funcByName {
		if len(f.Blocks) > 0 {
			out = append(out, f)
		}
	}
	sort.Slice(out, func(i, j int) bool { return canonName(out[i]) < canonName(out[j]) })
	return out
}

func (e *engine) posStr(p token.Pos) string {
	if !p.IsValid() {
		return "?"
	}
	q := e.fset.Position(p)
	return fmt.Sprintf("%s:%d", q.Filename, q.Line)
}

func (e *engine) structuralObligations(prop string) []*oblig {
	var out []*oblig
	switch prop {
	case "C05", "C06", "C07", "C08", "C10", "C11", "C12", "C13", "C14", "C15", "C16", "C03", "C04":
		out = append(out, e.neverClosedObligations([]string{prop})...)
	}
	switch prop {
	case "C15", "C10", "C05", "C16", "C08", "C06", "C13", "C04":
		out = append(out, e.ownershipObligations([]string{prop})...)
	}
	switch prop {
	case "C10", "C12":
		out = append(out, e.blockingObligations([]string{prop})...)
	}
	if len(e.db.nonnilGlobal) > 0 {
		switch prop {
		case "C03", "C12", "C14":
			out = append(out, e.nonnilGlobalObligations([]string{prop})...)
		}
	}
	switch prop {
	case "C17", "C18", "C19":
		out = append(out, e.immutabilityObligations([]string{"C17", "C18", "C19"})...)
	}
	return out
}

// immutabilityObligations: fields declared immutable are assigned only on objects
// allocated in the assigning function; maps held in frozen fields / of frozen
// types are never updated through such a value.
func (e *engine) immutabilityObligations(props []string) []*oblig {
	var out []*oblig
	fieldKey := func(fa *ssa.FieldAddr) string {
		stt := fa.X.Type().Underlying().(*types.Pointer).Elem()
		return typeName(stt) + "." + stt.Underlying().(*types.Struct).Field(fa.Field).Name()
	}
	bad := map[string][]string{}
	for k := range e.db.immutable {
		bad["immutable."+k] = nil
	}
	for k := range e.db.frozen {
		bad["frozen."+k] = nil
	}
	for k := range e.db.frozenType {
		bad["frozen-type."+k] = nil
	}
	// does v derive from a frozen field or frozen type?
	var frozenSrc func(v ssa.Value, depth int) string
	frozenSrc = func(v ssa.Value, depth int) string {
		if depth > 6 {
			return ""
		}
		if n, ok := v.Type().(*types.Named); ok && e.db.frozenType[typeName(n)] {
			return "frozen-type." + typeName(n)
		}
		switch x := v.(type) {
		case *ssa.UnOp:
			if x.Op == token.MUL {
				if fa, ok := x.X.(*ssa.FieldAddr); ok {
					if k := fieldKey(fa); e.db.frozen[k] {
						return "frozen." + k
					}
				}
				return frozenSrc(x.X, depth+1)
			}
		case *ssa.Field:
			stt := x.X.Type()
			k := typeName(stt) + "." + stt.Underlying().(*types.Struct).Field(x.Field).Name()
			if e.db.frozen[k] {
				return "frozen." + k
			}
		case *ssa.ChangeType:
			return frozenSrc(x.X, depth+1)
		case *ssa.TypeAssert:
			if n, ok := x.AssertedType.(*types.Named); ok && e.db.frozenType[typeName(n)] {
				return "frozen-type." + typeName(n)
			}
		case *ssa.Extract:
			return frozenSrc(x.Tuple, depth+1)
		}
		return ""
	}
	for _, fn := range e.allRepoFuncs() {
		for _, b := range fn.Blocks {
			for _, ins := range b.Instrs {
				switch i := ins.(type) {
				case *ssa.Store:
					fa, ok := i.Addr.(*ssa.FieldAddr)
					if !ok {
						continue
					}
					k := fieldKey(fa)
					if !e.db.immutable[k] {
						continue
					}
					var root ssa.Value = fa.X
					for {
						inner, ok := root.(*ssa.FieldAddr)
						if !ok {
							break
						}
						root = inner.X
					}
					if a, ok := root.(*ssa.Alloc); ok {
						_ = a
						continue // store into an object (or a local value) allocated right here
					}
					bad["immutable."+k] = append(bad["immutable."+k], fmt.Sprintf("%s assigns the field at %s", canonName(fn), e.posStr(i.Pos())))
				case *ssa.MapUpdate:
					if src := frozenSrc(i.Map, 0); src != "" {
						bad[src] = append(bad[src], fmt.Sprintf("%s updates the map at %s", canonName(fn), e.posStr(i.Pos())))
					}
				case *ssa.Call:
					if bi, ok := i.Call.Value.(*ssa.Builtin); ok && bi.Name() == "delete" {
						if src := frozenSrc(i.Call.Args[0], 0); src != "" {
							bad[src] = append(bad[src], fmt.Sprintf("%s deletes from the map at %s", canonName(fn), e.posStr(i.Pos())))
						}
					}
				}
			}
		}
	}
	var keys []string
	for k := range bad {
		keys = append(keys, k)
	}
	sort.Strings(keys)
	for _, k := range keys {
		clause := "the field is assigned only on objects allocated in the assigning function (constructor)"
		if strings.HasPrefix(k, "frozen") {
			clause = "no map update or delete goes through a value read from this frozen field / of this frozen type"
		}
		out = append(out, e.structOblig(k, props, len(bad[k]) == 0, clause, strings.Join(bad[k], "\n"), token.NoPos))
	}
	return out
}

// neverClosedObligations: a channel field declared neverclosed is not the operand of any close() in /repo.
func (e *engine) neverClosedObligations(props []string) []*oblig {
	bad := map[string][]string{}
	for k := range e.db.neverClosed {
		bad[k] = nil
	}
	for k := range e.db.neverClosedType {
		bad["type:"+k] = nil
	}
	var src func(v ssa.Value, depth int) string
	src = func(v ssa.Value, depth int) string {
		if depth > 6 {
			return ""
		}
		switch x := v.(type) {
		case *ssa.UnOp:
			if x.Op == token.MUL {
				if fa, ok := x.X.(*ssa.FieldAddr); ok {
					stt := fa.X.Type().Underlying().(*types.Pointer).Elem()
					return typeName(stt) + "." + stt.Underlying().(*types.Struct).Field(fa.Field).Name()
				}
				return src(x.X, depth+1)
			}
		case *ssa.ChangeType:
			return src(x.X, depth+1)
		case *ssa.MakeInterface:
			return src(x.X, depth+1)
		}
		return ""
	}
	for _, fn := range e.allRepoFuncs() {
		for _, b := range fn.Blocks {
			for _, ins := range b.Instrs {
				var c *ssa.CallCommon
				switch i := ins.(type) {
				case *ssa.Call:
					c = &i.Call
				case *ssa.Defer:
					c = &i.Call
				}
				if c == nil {
					continue
				}
				if bi, ok := c.Value.(*ssa.Builtin); ok && bi.Name() == "close" {
					if k := src(c.Args[0], 0); e.db.neverClosed[k] {
						bad[k] = append(bad[k], fmt.Sprintf("%s closes it at %s", canonName(fn), e.posStr(ins.Pos())))
					}
					if ct, ok := c.Args[0].Type().Underlying().(*types.Chan); ok {
						if k := "type:" + typeName(ct.Elem()); e.db.neverClosedType[typeName(ct.Elem())] {
							bad[k] = append(bad[k], fmt.Sprintf("%s closes a channel of this element type at %s", canonName(fn), e.posStr(ins.Pos())))
						}
					}
				}
			}
		}
	}
	var keys []string
	for k := range bad {
		keys = append(keys, k)
	}
	sort.Strings(keys)
	var out []*oblig
	for _, k := range keys {
		out = append(out, e.structOblig("neverclosed."+k, props, len(bad[k]) == 0, "no close() in /repo has this channel field (or a channel of this element type) as operand", strings.Join(bad[k], "\n"), token.NoPos))
	}
	out = append(out, e.chaninvTypeCoverage(props)...)
	return out
}

// chaninvTypeCoverage: an invariant declared for every channel of an element type is asserted
// where a function under contract sends; a function of /repo WITHOUT a contract that sends on
// such a channel would escape it, so there must be none.
func (e *engine) chaninvTypeCoverage(props []string) []*oblig {
	var out []*oblig
	var keys []string
	for k := range e.db.chaninv {
		if strings.HasPrefix(k, "type:") {
			keys = append(keys, k)
		}
	}
	sort.Strings(keys)
	for _, k := range keys {
		var bad []string
		for _, fn := range e.allRepoFuncs() {
			if b := e.db.funcs[canonName(fn)]; b != nil && b.kind == "func" {
				continue
			}
			if e.inlinedEverywhere(fn, 0) {
				continue // a helper without contract whose every call is a plain call from a function under contract: its sends are executed (inlined) there
			}
			for _, blk := range fn.Blocks {
				for _, ins := range blk.Instrs {
					var chs []ssa.Value
					switch i := ins.(type) {
					case *ssa.Send:
						chs = append(chs, i.Chan)
					case *ssa.Select:
						for _, st := range i.States {
							if st.Dir == types.SendOnly {
								chs = append(chs, st.Chan)
							}
						}
					}
					for _, ch := range chs {
						if ct, ok := ch.Type().Underlying().(*types.Chan); ok && "type:"+typeName(ct.Elem()) == k {
							bad = append(bad, fmt.Sprintf("%s sends at %s without being under contract", canonName(fn), e.posStr(ins.Pos())))
						}
					}
				}
			}
		}
		out = append(out, e.structOblig("chaninv-coverage."+k, props, len(bad) == 0, "every function of /repo that sends on a channel of this element type is under contract (so the invariant is asserted at every send)", strings.Join(bad, "\n"), token.NoPos))
	}
	return out
}

// nonnilGlobalObligations: the variable is assigned exactly once, in the package initialiser,
// with the result of errors.New / fmt.Errorf (which never return nil).
func (e *engine) nonnilGlobalObligations(props []string) []*oblig {
	var keys []string
	for k := range e.db.nonnilGlobal {
		keys = append(keys, k)
	}
	sort.Strings(keys)
	var out []*oblig
	for _, k := range keys {
		var problems []string
		inits := 0
		for _, fn := range e.allRepoFuncs() {
			for _, b := range fn.Blocks {
				for _, ins := range b.Instrs {
					st, ok := ins.(*ssa.Store)
					if !ok {
						continue
					}
					g, ok := st.Addr.(*ssa.Global)
					if !ok || trimPath(g.Pkg.Pkg.Path())+"."+g.Name() != k {
						continue
					}
					if fn.Name() != "init" {
						problems = append(problems, fmt.Sprintf("assigned in %s at %s", canonName(fn), e.posStr(st.Pos())))
						continue
					}
					inits++
					call, ok := st.Val.(*ssa.Call)
					okInit := false
					if ok {
						if f, ok := call.Call.Value.(*ssa.Function); ok {
							n := canonName(f)
							okInit = n == "errors.New" || n == "fmt.Errorf"
						}
					}
					if !okInit {
						problems = append(problems, fmt.Sprintf("initialised with something other than errors.New/fmt.Errorf at %s", e.posStr(st.Pos())))
					}
				}
			}
		}
		if inits != 1 {
			problems = append(problems, fmt.Sprintf("%d initialising stores found (want 1)", inits))
		}
		out = append(out, e.structOblig("nonnil-global."+k, props, len(problems) == 0, "assigned once, by the package initialiser, with errors.New / fmt.Errorf", strings.Join(problems, "\n"), token.NoPos))
	}
	return out
}

// ownershipObligations (confinement, DESIGN.md section 3.5): the fields declared owned by an actor
// loop are touched only by functions that can run only on that actor's goroutine — the owner
// itself and functions all of whose call sites lie in such functions — or by the constructor on
// the object it has just allocated; and the owner is spawned by exactly one go statement.
func (e *engine) ownershipObligations(props []string) []*oblig {
	var owners []string
	for o := range e.db.owners {
		owners = append(owners, o)
	}
	sort.Strings(owners)
	funcs := e.allRepoFuncs()
	// static call sites: callee -> callers (call and defer; go statements counted separately)
	callers := map[*ssa.Function][]*ssa.Function{}
	spawns := map[*ssa.Function][]string{}
	addr := map[*ssa.Function]bool{} // function used as a value (could be called from anywhere)
	for _, fn := range funcs {
		for _, b := range fn.Blocks {
			for _, ins := range b.Instrs {
				var c *ssa.CallCommon
				isGo := false
				switch i := ins.(type) {
				case *ssa.Call:
					c = &i.Call
				case *ssa.Defer:
					c = &i.Call
				case *ssa.Go:
					c = &i.Call
					isGo = true
				}
				if c != nil {
					if callee, ok := c.Value.(*ssa.Function); ok {
						if isGo {
							spawns[callee] = append(spawns[callee], fmt.Sprintf("%s at %s", canonName(fn), e.posStr(ins.Pos())))
						} else {
							callers[callee] = append(callers[callee], fn)
						}
					}
				}
				for _, op := range ins.Operands(nil) {
					if f, ok := (*op).(*ssa.Function); ok {
						if c == nil || c.Value != f {
							addr[f] = true
						}
					}
				}
			}
		}
	}
	var out []*oblig
	for _, oname := range owners {
		owner := e.funcByName[oname]
		fields := e.db.owners[oname]
		sort.Strings(fields)
		if owner == nil {
			out = append(out, e.structOblig("owner."+oname, props, false, "owner function exists", "owner function not found in /repo", token.NoPos))
			continue
		}
		// confined: functions that can only run as part of the owner
		confined := map[*ssa.Function]bool{owner: true}
		for changed := true; changed; {
			changed = false
			for _, fn := range funcs {
				if confined[fn] || addr[fn] || len(callers[fn]) == 0 || len(spawns[fn]) > 0 {
					continue
				}
				if fn.Parent() != nil {
					continue
				}
				all := true
				for _, c := range callers[fn] {
					if !confined[c] {
						all = false
					}
				}
				// methods can also be reached through interfaces: only unexported-method receivers of
				// unexported types are considered, and only if no interface in /repo has a method of that name
				if all && e.reachableViaInterface(fn) {
					all = false
				}
				if all {
					confined[fn] = true
					changed = true
				}
			}
		}
		isField := map[string]bool{}
		for _, f := range fields {
			isField[f] = true
		}
		var problems []string
		for _, fn := range funcs {
			for _, b := range fn.Blocks {
				for _, ins := range b.Instrs {
					fa, ok := ins.(*ssa.FieldAddr)
					if !ok {
						continue
					}
					stt := fa.X.Type().Underlying().(*types.Pointer).Elem()
					k := typeName(stt) + "." + stt.Underlying().(*types.Struct).Field(fa.Field).Name()
					if !isField[k] || confined[fn] {
						continue
					}
					if a, ok := fa.X.(*ssa.Alloc); ok && a.Heap {
						continue // the constructor initialising the object it has just allocated
					}
					problems = append(problems, fmt.Sprintf("%s touches %s at %s", canonName(fn), k, e.posStr(fa.Pos())))
				}
			}
		}
		out = append(out, e.structOblig("owner."+oname+".confinement", props, len(problems) == 0,
			"fields "+strings.Join(fields, ", ")+" are touched only by "+oname+", functions called only from it, and the constructor on the freshly allocated object",
			strings.Join(problems, "\n"), owner.Pos()))
		out = append(out, e.structOblig("owner."+oname+".spawned-once", props, len(spawns[owner]) == 1 && len(callers[owner]) == 0 && !addr[owner],
			"the owner runs on exactly one goroutine per object: one go statement in /repo, no ordinary call, never used as a value",
			fmt.Sprintf("go statements: %v; ordinary callers: %d; used as value: %v", spawns[owner], len(callers[owner]), addr[owner]), owner.Pos()))
	}
	return out
}

// reachableViaInterface: could fn be the target of an interface method call from /repo code?
func (e *engine) reachableViaInterface(fn *ssa.Function) bool {
	if fn.Signature.Recv() == nil {
		return false
	}
	name := fn.Name()
	for _, t := range e.typeByName {
		it, ok := t.Underlying().(*types.Interface)
		if !ok {
			continue
		}
		for i := 0; i < it.NumMethods(); i++ {
			if it.Method(i).Name() == name && types.Implements(fn.Signature.Recv().Type(), it) {
				return true
			}
		}
	}
	return false
}

// chanOrigin describes where a channel operand comes from, for the blocking-effect rules.
func (e *engine) chanOrigin(v ssa.Value, depth int) (kind, detail string) {
	if depth > 8 {
		return "unknown", ""
	}
	switch x := v.(type) {
	case *ssa.MakeChan:
		if c, ok := x.Size.(*ssa.Const); ok && c.Int64() >= 1 {
			return "made-buffered", ""
		}
		return "made-unbuffered", ""
	case *ssa.Call:
		s, _ := calleeShort(&x.Call)
		return "call", s
	case *ssa.Extract:
		if sel, ok := x.Tuple.(*ssa.Select); ok {
			_ = sel
			return "received", ""
		}
		if c, ok := x.Tuple.(*ssa.Call); ok {
			s, _ := calleeShort(&c.Call)
			return "call", s
		}
		return e.chanOrigin(x.Tuple, depth+1)
	case *ssa.UnOp:
		if x.Op == token.MUL {
			switch a := x.X.(type) {
			case *ssa.FieldAddr:
				stt := a.X.Type().Underlying().(*types.Pointer).Elem()
				return "field", typeName(stt) + "." + stt.Underlying().(*types.Struct).Field(a.Field).Name()
			case *ssa.Alloc:
				// a local: look at what is stored into it
				var kinds []string
				det := a.Comment
				for _, ref := range *a.Referrers() {
					if st, ok := ref.(*ssa.Store); ok && st.Addr == a {
						k, d := e.chanOrigin(st.Val, depth+1)
						if k == "const-nil" {
							continue
						}
						kinds = append(kinds, k+":"+d)
					}
				}
				sort.Strings(kinds)
				return "local", det + "<-" + strings.Join(uniqStrings(kinds), ",")
			case *ssa.FreeVar:
				return "captured", a.Name()
			}
		}
		if x.Op == token.ARROW {
			return "received", ""
		}
	case *ssa.Field:
		return "field-of-value", x.X.Type().Underlying().(*types.Struct).Field(x.Field).Name()
	case *ssa.Parameter:
		return "param", x.Name()
	case *ssa.Const:
		return "const-nil", ""
	case *ssa.ChangeType:
		return e.chanOrigin(x.X, depth+1)
	case *ssa.Phi:
		return "phi", ""
	}
	return "unknown", fmt.Sprintf("%T", v)
}

func uniqStrings(in []string) []string {
	var out []string
	for i, s := range in {
		if i == 0 || s != in[i-1] {
			out = append(out, s)
		}
	}
	return out
}

var lifecycleChans = map[string]bool{"ShuttingDown": true, "ShutdownRequest": true, "Done": true, "done": true}

// blockingObligations (DESIGN.md section 3.5, blocking effects): every operation in /repo that
// can block is one of the sanctioned shapes; channels facing a consumer are only ever sent on
// from a select with a default branch.
//   guarded-select   blocking select with a case on a lifecycle channel (ShuttingDown / ShutdownRequest / Done / donech / ctx.Done)
//   reply-receive    bare receive from a buffered channel made in the same function (the reply to a request just handed over)
//   join-wait        bare receive from x.Done() / donech: waiting for a component whose shutdown was requested
//   reply-send       bare send on the reply channel carried by the request being served, or on a buffered channel made by the spawner
//   timer            receive from a timer channel (covered by the ticker contract)
//   range            for-range over a parent's event channel (terminates when the parent closes it)
func (e *engine) blockingObligations(props []string) []*oblig {
	var out []*oblig
	nb := map[string][]string{}
	for k := range e.db.nonblocking {
		nb[k] = nil
	}
	type op struct {
		fn   *ssa.Function
		pos  token.Pos
		desc string
		ok   bool
		cls  string
	}
	var ops []op
	for _, fn := range e.allRepoFuncs() {
		if strings.HasPrefix(canonName(fn), "join/gen") || strings.HasPrefix(canonName(fn), "types/gen") || strings.HasPrefix(canonName(fn), "testutil") || strings.HasPrefix(canonName(fn), "util") {
			continue
		}
		fname := canonName(fn)
		checkNB := func(ch ssa.Value, inNonBlockingSelect bool, pos token.Pos) {
			k, d := e.chanOrigin(ch, 0)
			key := ""
			if k == "field" {
				key = d
			}
			if k == "local" {
				key = fname + ":" + strings.SplitN(d, "<-", 2)[0]
			}
			if _, declared := nb[key]; declared && !inNonBlockingSelect {
				nb[key] = append(nb[key], fmt.Sprintf("%s sends on it outside a select with default at %s", fname, e.posStr(pos)))
			}
		}
		for _, b := range fn.Blocks {
			for _, ins := range b.Instrs {
				switch i := ins.(type) {
				case *ssa.Send:
					checkNB(i.Chan, false, i.Pos())
					k, d := e.chanOrigin(i.Chan, 0)
					o := op{fn: fn, pos: i.Pos(), desc: fmt.Sprintf("send on %s %s", k, d)}
					switch {
					case k == "field-of-value" && d == "resultch", k == "field" && strings.HasSuffix(d, "equest.resultch"), k == "received", k == "local" && strings.Contains(d, "received"):
						o.ok, o.cls = true, "reply-send"
					case k == "captured" || k == "local" && strings.Contains(d, "made-buffered") || k == "made-buffered":
						o.ok, o.cls = true, "reply-send (buffered channel made by the spawner)"
					case k == "field" && d == "kcache.publisher.unsubscribech":
						o.ok, o.cls = true, "unsubscribe (received by publisher.run in both of its loops)"
					}
					ops = append(ops, o)
				case *ssa.UnOp:
					if i.Op != token.ARROW {
						continue
					}
					k, d := e.chanOrigin(i.X, 0)
					o := op{fn: fn, pos: i.Pos(), desc: fmt.Sprintf("receive from %s %s", k, d)}
					switch {
					case k == "made-buffered" || k == "local" && strings.Contains(d, "made-buffered"):
						o.ok, o.cls = true, "reply-receive"
					case k == "call" && lifecycleChans[d] || k == "field" && strings.HasSuffix(d, ".donech") || k == "field" && strings.HasSuffix(d, ".stoppedch") || k == "local" && (strings.Contains(d, "call:Done") || strings.Contains(d, "call:done") || strings.Contains(d, "call:list")):
						o.ok, o.cls = true, "join-wait"
					case k == "captured" || k == "param":
						o.ok, o.cls = true, "join-wait (channel handed in by the spawner)"
					case k == "field" && d == "time.Timer.C":
						o.ok, o.cls = true, "timer"
					case k == "call" && d == "Events":
						o.ok, o.cls = true, "range (ends when the parent closes its event channel)"
					case k == "field" && d == "kcache.publisher.unsubscribech" && fname == "(*kcache.publisher).run":
						o.ok, o.cls = true, "drain (unsubscribe requests of the remaining subscriptions)"
					}
					ops = append(ops, o)
				case *ssa.Select:
					for _, s := range i.States {
						if s.Dir == types.SendOnly {
							checkNB(s.Chan, !i.Blocking, s.Pos)
						}
					}
					if !i.Blocking {
						continue
					}
					o := op{fn: fn, pos: i.Pos(), desc: "blocking select"}
					for _, s := range i.States {
						if s.Dir == types.SendOnly {
							continue
						}
						k, d := e.chanOrigin(s.Chan, 0)
						if k == "call" && lifecycleChans[d] || k == "field" && (strings.HasSuffix(d, ".donech") || strings.HasSuffix(d, ".stoppingch") || strings.HasSuffix(d, ".stoppedch") || strings.HasSuffix(d, ".stopch")) ||
							k == "local" && (strings.Contains(d, "call:Done") || strings.Contains(d, "call:done")) || k == "captured" {
							o.ok, o.cls = true, "guarded-select"
						}
					}
					if !o.ok {
						for _, s := range i.States {
							if k, d := e.chanOrigin(s.Chan, 0); s.Dir == types.RecvOnly && k == "call" && d == "Events" {
								o.ok, o.cls = true, "parent-driven select (ends when the parent closes its event channel)"
							}
						}
					}
					ops = append(ops, o)
				case *ssa.Next:
					if !i.IsString {
						if r, ok := i.Iter.(*ssa.Range); ok {
							if _, isChan := r.X.Type().Underlying().(*types.Chan); isChan {
								ops = append(ops, op{fn: fn, pos: i.Pos(), desc: "range over channel", ok: true, cls: "range"})
							}
						}
					}
				}
			}
		}
	}
	// one obligation per function: all its blocking operations are sanctioned
	byFn := map[string][]op{}
	var names []string
	for _, o := range ops {
		n := canonName(o.fn)
		if _, ok := byFn[n]; !ok {
			names = append(names, n)
		}
		byFn[n] = append(byFn[n], o)
	}
	sort.Strings(names)
	for _, n := range names {
		var bad, all []string
		for _, o := range byFn[n] {
			if o.ok {
				all = append(all, fmt.Sprintf("%s: %s [%s]", e.posStr(o.pos), o.desc, o.cls))
			} else {
				bad = append(bad, fmt.Sprintf("%s: %s is not one of the sanctioned blocking shapes", e.posStr(o.pos), o.desc))
			}
		}
		ob := e.structOblig("blocking."+n, props, len(bad) == 0, "every blocking channel operation is a sanctioned shape: "+strings.Join(all, "; "), strings.Join(bad, "\n"), byFn[n][0].fn.Pos())
		out = append(out, ob)
	}
	var keys []string
	for k := range nb {
		keys = append(keys, k)
	}
	sort.Strings(keys)
	for _, k := range keys {
		out = append(out, e.structOblig("nonblocking-send."+k, props, len(nb[k]) == 0, "every send on this consumer-facing channel is a case of a select with a default branch", strings.Join(nb[k], "\n"), token.NoPos))
	}
	return out
}

func fnameIs(a, b string) bool { return a == b }

// inlinedEverywhere: fn (no contract) is only ever called by plain static calls from functions that are under
// contract, or from helpers of which the same holds: the generator inlines such callees, so every send fn
// performs is executed symbolically in a function under contract.
func (e *engine) inlinedEverywhere(fn *ssa.Function, depth int) bool {
	if depth > 3 || fn.Parent() != nil {
		return false
	}
	if e.callersOf == nil {
		e.callersOf = map[*ssa.Function][]*ssa.Function{}
		e.usedAsValue = map[*ssa.Function]bool{}
		for _, f := range e.allRepoFuncs() {
			for _, b := range f.Blocks {
				for _, ins := range b.Instrs {
					switch i := ins.(type) {
					case *ssa.Call:
						if c, ok := i.Call.Value.(*ssa.Function); ok && !i.Call.IsInvoke() {
							e.callersOf[c] = append(e.callersOf[c], f)
						}
					case *ssa.Go:
						if c, ok := i.Call.Value.(*ssa.Function); ok {
							e.usedAsValue[c] = true
						}
					case *ssa.Defer:
						if c, ok := i.Call.Value.(*ssa.Function); ok {
							e.usedAsValue[c] = true
						}
					}
					// a function used as a value (stored, passed, bound) is not necessarily inlined
					for _, op := range ins.Operands(nil) {
						if op == nil || *op == nil {
							continue
						}
						if c, ok := (*op).(*ssa.Function); ok {
							if call, isCall := ins.(*ssa.Call); !isCall || call.Call.Value != c {
								e.usedAsValue[c] = true
							}
						}
					}
				}
			}
		}
	}
	if e.usedAsValue[fn] || len(e.callersOf[fn]) == 0 {
		return false
	}
	for _, c := range e.callersOf[fn] {
		root := c
		for root.Parent() != nil {
			root = root.Parent()
		}
		if b := e.db.funcs[canonName(c)]; b != nil && b.kind == "func" {
			continue
		}
		if !e.inlinedEverywhere(c, depth+1) {
			return false
		}
	}
	return true
}
