package main

// Structural (ownership / immutability / blocking-effect / wiring) obligations,
// decided on the SSA of /repo by the engine itself (back end "structural").
// They are frame/ownership conditions of the contracts: the proofs by SMT rely on
// them, and they are generated from the current source like every other obligation.

import (
	"fmt"
	"go/token"
	"go/types"
	"sort"
	"strings"

	"golang.org/x/tools/go/ssa"
)

func (e *engine) structOblig(name string, props []string, ok bool, clause, detail string, pos token.Pos) *oblig {
	o := &oblig{name: "structural/" + name, kind: "structural", fn: "structural", goal: clause, clause: clause, props: props, solver: "structural", tpos: pos}
	if pos.IsValid() {
		p := e.fset.Position(pos)
		o.pos = fmt.Sprintf("%s:%d", p.Filename, p.Line)
	}
	if ok {
		o.result = "unsat"
	} else {
		o.result = "sat"
		o.model = detail
	}
	return o
}

// allRepoFuncs returns every function with a body in the loaded /repo packages, sorted.
func (e *engine) allRepoFuncs() []*ssa.Function {
	var out []*ssa.Function
	for _, f := range e.funcByName {
		if len(f.Blocks) > 0 {
			out = append(out, f)
		}
	}
	sort.Slice(out, func(i, j int) bool { return canonName(out[i]) < canonName(out[j]) })
	return out
}

func (e *engine) posStr(p token.Pos) string {
	if !p.IsValid() {
		return "?"
	}
	q := e.fset.Position(p)
	return fmt.Sprintf("%s:%d", q.Filename, q.Line)
}

func (e *engine) structuralObligations(prop string) []*oblig {
	var out []*oblig
	switch prop {
	case "C05", "C06", "C07", "C08", "C10", "C11", "C12", "C13", "C14", "C15", "C16", "C03", "C04":
		out = append(out, e.neverClosedObligations([]string{prop})...)
	}
	switch prop {
	case "C17", "C18", "C19":
		out = append(out, e.immutabilityObligations([]string{"C17", "C18", "C19"})...)
	}
	return out
}

// immutabilityObligations: fields declared immutable are assigned only on objects
// allocated in the assigning function; maps held in frozen fields / of frozen
// types are never updated through such a value.
func (e *engine) immutabilityObligations(props []string) []*oblig {
	var out []*oblig
	fieldKey := func(fa *ssa.FieldAddr) string {
		stt := fa.X.Type().Underlying().(*types.Pointer).Elem()
		return typeName(stt) + "." + stt.Underlying().(*types.Struct).Field(fa.Field).Name()
	}
	bad := map[string][]string{}
	for k := range e.db.immutable {
		bad["immutable."+k] = nil
	}
	for k := range e.db.frozen {
		bad["frozen."+k] = nil
	}
	for k := range e.db.frozenType {
		bad["frozen-type."+k] = nil
	}
	// does v derive from a frozen field or frozen type?
	var frozenSrc func(v ssa.Value, depth int) string
	frozenSrc = func(v ssa.Value, depth int) string {
		if depth > 6 {
			return ""
		}
		if n, ok := v.Type().(*types.Named); ok && e.db.frozenType[typeName(n)] {
			return "frozen-type." + typeName(n)
		}
		switch x := v.(type) {
		case *ssa.UnOp:
			if x.Op == token.MUL {
				if fa, ok := x.X.(*ssa.FieldAddr); ok {
					if k := fieldKey(fa); e.db.frozen[k] {
						return "frozen." + k
					}
				}
				return frozenSrc(x.X, depth+1)
			}
		case *ssa.Field:
			stt := x.X.Type()
			k := typeName(stt) + "." + stt.Underlying().(*types.Struct).Field(x.Field).Name()
			if e.db.frozen[k] {
				return "frozen." + k
			}
		case *ssa.ChangeType:
			return frozenSrc(x.X, depth+1)
		case *ssa.TypeAssert:
			if n, ok := x.AssertedType.(*types.Named); ok && e.db.frozenType[typeName(n)] {
				return "frozen-type." + typeName(n)
			}
		case *ssa.Extract:
			return frozenSrc(x.Tuple, depth+1)
		}
		return ""
	}
	for _, fn := range e.allRepoFuncs() {
		for _, b := range fn.Blocks {
			for _, ins := range b.Instrs {
				switch i := ins.(type) {
				case *ssa.Store:
					fa, ok := i.Addr.(*ssa.FieldAddr)
					if !ok {
						continue
					}
					k := fieldKey(fa)
					if !e.db.immutable[k] {
						continue
					}
					if a, ok := fa.X.(*ssa.Alloc); ok && a.Heap {
						continue // store into an object allocated right here
					}
					bad["immutable."+k] = append(bad["immutable."+k], fmt.Sprintf("%s assigns the field at %s", canonName(fn), e.posStr(i.Pos())))
				case *ssa.MapUpdate:
					if src := frozenSrc(i.Map, 0); src != "" {
						bad[src] = append(bad[src], fmt.Sprintf("%s updates the map at %s", canonName(fn), e.posStr(i.Pos())))
					}
				case *ssa.Call:
					if bi, ok := i.Call.Value.(*ssa.Builtin); ok && bi.Name() == "delete" {
						if src := frozenSrc(i.Call.Args[0], 0); src != "" {
							bad[src] = append(bad[src], fmt.Sprintf("%s deletes from the map at %s", canonName(fn), e.posStr(i.Pos())))
						}
					}
				}
			}
		}
	}
	var keys []string
	for k := range bad {
		keys = append(keys, k)
	}
	sort.Strings(keys)
	for _, k := range keys {
		clause := "the field is assigned only on objects allocated in the assigning function (constructor)"
		if strings.HasPrefix(k, "frozen") {
			clause = "no map update or delete goes through a value read from this frozen field / of this frozen type"
		}
		out = append(out, e.structOblig(k, props, len(bad[k]) == 0, clause, strings.Join(bad[k], "\n"), token.NoPos))
	}
	return out
}

// neverClosedObligations: a channel field declared neverclosed is not the operand of any close() in /repo.
func (e *engine) neverClosedObligations(props []string) []*oblig {
	bad := map[string][]string{}
	for k := range e.db.neverClosed {
		bad[k] = nil
	}
	var src func(v ssa.Value, depth int) string
	src = func(v ssa.Value, depth int) string {
		if depth > 6 {
			return ""
		}
		switch x := v.(type) {
		case *ssa.UnOp:
			if x.Op == token.MUL {
				if fa, ok := x.X.(*ssa.FieldAddr); ok {
					stt := fa.X.Type().Underlying().(*types.Pointer).Elem()
					return typeName(stt) + "." + stt.Underlying().(*types.Struct).Field(fa.Field).Name()
				}
				return src(x.X, depth+1)
			}
		case *ssa.ChangeType:
			return src(x.X, depth+1)
		case *ssa.MakeInterface:
			return src(x.X, depth+1)
		}
		return ""
	}
	for _, fn := range e.allRepoFuncs() {
		for _, b := range fn.Blocks {
			for _, ins := range b.Instrs {
				var c *ssa.CallCommon
				switch i := ins.(type) {
				case *ssa.Call:
					c = &i.Call
				case *ssa.Defer:
					c = &i.Call
				}
				if c == nil {
					continue
				}
				if bi, ok := c.Value.(*ssa.Builtin); ok && bi.Name() == "close" {
					if k := src(c.Args[0], 0); e.db.neverClosed[k] {
						bad[k] = append(bad[k], fmt.Sprintf("%s closes it at %s", canonName(fn), e.posStr(ins.Pos())))
					}
				}
			}
		}
	}
	var keys []string
	for k := range bad {
		keys = append(keys, k)
	}
	sort.Strings(keys)
	var out []*oblig
	for _, k := range keys {
		out = append(out, e.structOblig("neverclosed."+k, props, len(bad[k]) == 0, "no close() in /repo has this channel field as operand", strings.Join(bad[k], "\n"), token.NoPos))
	}
	return out
}
