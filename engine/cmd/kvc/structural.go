package main

// Structural (ownership / blocking-effect / wiring) obligations, decided on the SSA
// by the engine itself.  Filled in per property.

func (e *engine) structuralObligations(prop string) []*oblig { return nil }
