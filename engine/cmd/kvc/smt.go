package main

// Query assembly and solver racing.

import (
	"bytes"
	"context"
	"fmt"
	"go/types"
	"os"
	"os/exec"
	"path/filepath"
	"sort"
	"strings"
	"sync"
	"time"
)

const basePrelude = `(set-option :produce-models true)
(set-logic ALL)
(declare-sort V 0)
(declare-sort Str 0)
(declare-sort GoType 0)
(declare-datatypes ((Slice 1)) ((par (T) ((mkslice (sarr (Array Int T)) (slen Int))))))
(declare-fun vnil () V)
(declare-fun dyntype (V) GoType)
(declare-fun chancap (V) Int)
(declare-fun closureOf (V) Str)
(declare-fun strlt (Str Str) Bool)
; Go's < on strings is a strict total order (irreflexive, transitive, total)
(assert (forall ((a Str)) (! (not (strlt a a)) :pattern ((strlt a a)))))
(assert (forall ((a Str) (b Str) (c Str)) (! (=> (and (strlt a b) (strlt b c)) (strlt a c)) :pattern ((strlt a b) (strlt b c)))))
(assert (forall ((a Str) (b Str)) (! (or (strlt a b) (= a b) (strlt b a)) :pattern ((strlt a b)))))
(declare-fun strcat (Str Str) Str)
(define-fun godiv ((x Int) (y Int)) Int
  (ite (>= x 0) (ite (> y 0) (div x y) (- (div x (- y)))) (ite (> y 0) (- (div (- x) y)) (div (- x) (- y)))))
(declare-fun strlen (Str) Int)
`

// theoryClosure returns the theory blocks needed, dependencies first.
func (e *engine) theoryClosure(names []string) []*block {
	var out []*block
	seen := map[string]bool{}
	var visit func(n string)
	visit = func(n string) {
		if seen[n] {
			return
		}
		seen[n] = true
		b, ok := e.db.theories[n]
		if !ok {
			panic(unsupported{"unknown theory " + n})
		}
		for _, d := range b.theories {
			visit(d)
		}
		b.used = true
		out = append(out, b)
	}
	sort.Strings(names)
	for _, n := range names {
		visit(n)
	}
	return out
}

func (e *engine) theoryDeclares(theories map[string]bool, sym string) bool {
	for _, b := range e.theoryClosure(sortedKeys(theories)) {
		for _, s := range e.theorySyms(b) {
			if s == sym {
				return true
			}
		}
	}
	return false
}

func (e *engine) theorySyms(b *block) []string {
	if s, ok := e.thSyms[b.name]; ok {
		return s
	}
	forms, _ := parseSxMany(b.text)
	s := declaredSymbols(forms)
	e.thSyms[b.name] = s
	return s
}

// collectAtoms scans theory text for |str!..| and |ty!..| constants.
func collectAtoms(text string, strs, tys map[string]bool) {
	for i := 0; i < len(text); i++ {
		if text[i] == '|' {
			j := strings.IndexByte(text[i+1:], '|')
			if j < 0 {
				return
			}
			sym := text[i : i+j+2]
			if strings.HasPrefix(sym, "|str!") {
				strs[sym] = true
			}
			if strings.HasPrefix(sym, "|ty!") {
				tys[sym] = true
			}
			i += j + 1
		}
		if text[i] == ';' {
			for i < len(text) && text[i] != '\n' {
				i++
			}
		}
	}
}

func (fc *fnCtx) queryPrefix() string {
	var sb strings.Builder
	sb.WriteString(basePrelude)
	ths := fc.e.theoryClosure(sortedKeys(fc.theories))
	// make sure the datatypes theories use exist
	for _, b := range ths {
		for _, u := range b.uses {
			t := fc.e.typeByName[u]
			if t == nil && u == "struct{}" {
				t = types.NewStruct(nil, nil)
			}
			if t == nil {
				panic(unsupported{"theory " + b.name + " uses unknown type " + u})
			}
			fc.e.sorts.sortOf(t)
		}
	}
	strs, tys := map[string]bool{}, map[string]bool{}
	for k := range fc.strs {
		strs[k] = true
	}
	for k := range fc.tys {
		tys[k] = true
	}
	for k := range fc.tyNames {
		tys[k] = true
	}
	for _, b := range ths {
		collectAtoms(b.text, strs, tys)
	}
	for _, d := range fc.decls {
		collectAtoms(d, strs, tys)
	}
	for _, a := range fc.assumes {
		collectAtoms(a, strs, tys)
	}
	for _, o := range fc.obligs {
		collectAtoms(o.goal, strs, tys)
	}
	var body strings.Builder
	for _, b := range ths {
		body.WriteString(b.text)
	}
	for _, d := range fc.decls {
		body.WriteString(d)
	}
	for _, a := range fc.assumes {
		body.WriteString(a)
	}
	for _, o := range fc.obligs {
		body.WriteString(o.goal)
	}
	sb.WriteString(fc.e.sorts.declsFor(body.String()))
	for _, s := range sortedKeys(strs) {
		fmt.Fprintf(&sb, "(declare-fun %s () Str)\n", s)
	}
	if len(strs) > 1 {
		fmt.Fprintf(&sb, "(assert (distinct %s))\n", strings.Join(sortedKeys(strs), " "))
	}
	for _, s := range sortedKeys(tys) {
		fmt.Fprintf(&sb, "(declare-fun %s () GoType)\n", s)
	}
	if len(tys) > 1 {
		fmt.Fprintf(&sb, "(assert (distinct %s))\n", strings.Join(sortedKeys(tys), " "))
	}
	for _, b := range ths {
		fmt.Fprintf(&sb, "; ---- theory %s\n%s\n", b.name, b.text)
	}
	sb.WriteString("; ---- function state\n")
	for _, d := range fc.decls {
		sb.WriteString(d)
		sb.WriteString("\n")
	}
	// implements facts
	for _, fn := range sortedKeysI(fc.ifaces) {
		it := fc.ifaces[fn]
		for _, tn := range sortedKeys(tys) {
			t := fc.tys[tn]
			if t == nil {
				t = fc.e.typeByName[strings.TrimSuffix(strings.TrimPrefix(tn, "|ty!"), "|")]
			}
			if t == nil {
				continue
			}
			if types.Implements(t, it) {
				fmt.Fprintf(&sb, "(assert (%s %s))\n", fn, tn)
			} else {
				fmt.Fprintf(&sb, "(assert (not (%s %s)))\n", fn, tn)
			}
		}
	}
	return sb.String()
}

func sortedKeysI(m map[string]*types.Interface) []string {
	out := make([]string, 0, len(m))
	for k := range m {
		out = append(out, k)
	}
	sort.Strings(out)
	return out
}

func (fc *fnCtx) buildQuery(o *oblig) string {
	var sb strings.Builder
	sb.WriteString(fc.queryPrefixCached())
	fmt.Fprintf(&sb, "; ---- obligation %s\n", o.name)
	for _, a := range fc.assumes[:o.nassume] {
		fmt.Fprintf(&sb, "(assert %s)\n", a)
	}
	if o.pc != "true" {
		fmt.Fprintf(&sb, "(assert %s)\n", o.pc)
	}
	fmt.Fprintf(&sb, "(assert (not %s))\n(check-sat)\n(get-model)\n", o.goal)
	return sb.String()
}

func (fc *fnCtx) queryPrefixCached() string {
	if fc.prefix == "" {
		fc.prefix = fc.queryPrefix()
	}
	return fc.prefix
}

// ---- solvers -------------------------------------------------------------------------

type solverSpec struct {
	name string
	argv func(file string, secs int) []string
}

var solvers = []solverSpec{
	{"z3-new", func(f string, s int) []string {
		if s == 0 {
			return []string{"z3-new", "-t:700", "-T:2", f} // vacuity probe: short soft timeout
		}
		return []string{"z3-new", fmt.Sprintf("-T:%d", s), f}
	}},
	{"z3", func(f string, s int) []string { return []string{"z3", fmt.Sprintf("-T:%d", s), f} }},
	{"cvc5", func(f string, s int) []string { return []string{"cvc5", fmt.Sprintf("--tlimit=%d", s*1000), f} }},
}

type solveOut struct {
	solver string
	result string // unsat sat unknown timeout error
	model  string
	secs   float64
	raw    string
}

func runSolver(ctx context.Context, sp solverSpec, file string, secs int) solveOut {
	t0 := time.Now()
	argv := sp.argv(file, secs)
	cctx, cancel := context.WithTimeout(ctx, time.Duration(secs+3)*time.Second)
	defer cancel()
	cmd := exec.CommandContext(cctx, argv[0], argv[1:]...)
	var buf bytes.Buffer
	cmd.Stdout = &buf
	cmd.Stderr = &buf
	cmd.Run()
	out := buf.String()
	so := solveOut{solver: sp.name, secs: time.Since(t0).Seconds(), raw: out}
	first := strings.TrimSpace(strings.SplitN(out, "\n", 2)[0])
	switch {
	case first == "unsat":
		so.result = "unsat"
	case first == "sat":
		so.result = "sat"
		if i := strings.Index(out, "\n"); i >= 0 {
			so.model = out[i+1:]
			if len(so.model) > 60000 {
				so.model = so.model[:60000] + "\n...truncated"
			}
		}
	case first == "unknown":
		so.result = "unknown"
	case first == "timeout" || strings.Contains(out, "timeout") || strings.Contains(out, "interrupted") || cctx.Err() != nil:
		so.result = "timeout"
	case strings.Contains(first, "error") || strings.HasPrefix(first, "(error"):
		so.result = "error"
	default:
		if out == "" {
			so.result = "timeout"
		} else {
			so.result = "error"
		}
	}
	// an (error in the output before the verdict is an engine error
	if so.result != "error" && strings.Contains(out, "(error") && !strings.Contains(out, "model is not available") {
		// z3 prints (error "... model is not available") for get-model after unsat
		for _, l := range strings.Split(out, "\n") {
			if strings.HasPrefix(strings.TrimSpace(l), "(error") && !strings.Contains(l, "model is not available") && !strings.Contains(l, "Cannot get model") && !strings.Contains(l, "cannot get model") {
				so.result = "error"
				break
			}
		}
	}
	return so
}

type dischargeOpts struct {
	quickSecs int
	fullSecs  int
	crossSecs int
	all       bool // consult every solver on every obligation (thorough)
	workdir   string
	jobs      int
}

// discharge decides all obligations, in parallel.
func discharge(obligs []*oblig, opt dischargeOpts) {
	sem := make(chan struct{}, opt.jobs)
	var wg sync.WaitGroup
	for idx, o := range obligs {
		if o.trivial {
			o.result, o.solver = "unsat", "trivial"
			continue
		}
		if o.prebaked {
			continue
		}
		wg.Add(1)
		sem <- struct{}{}
		go func(idx int, o *oblig) {
			defer wg.Done()
			defer func() { <-sem }()
			file := filepath.Join(opt.workdir, fmt.Sprintf("q%05d.smt2", idx))
			os.WriteFile(file, []byte(o.query), 0644)
			decide(o, file, opt)
			if o.result == "unsat" && !o.wantSat || o.wantSat && o.result != "unsat" {
				os.Remove(file)
			}
		}(idx, o)
	}
	wg.Wait()
}

func decide(o *oblig, file string, opt dischargeOpts) {
	ctx := context.Background()
	if o.wantSat {
		// vacuity / cover: anything but unsat is fine; quantified theories rarely give sat, so keep it short
		so := runSolver(ctx, solvers[0], file, 0)
		o.secs, o.result, o.solver = so.secs, so.result, so.solver
		if so.result == "error" {
			o.model = firstLines(so.raw, 5)
		}
		return
	}
	// stage 1: z3-new alone, briefly (nearly every obligation is decided here in well under a second);
	// stage 2: all three solvers race with the full timeout (z3-new included again)
	probe := opt.quickSecs
	if probe > 3 && !o.baseline {
		probe = 3
	}
	first := runSolver(ctx, solvers[0], file, probe)
	o.secs = first.secs
	if o.baseline && first.result != "unsat" && first.result != "error" {
		o.result, o.solver, o.model = first.result, first.solver, first.model
		if o.result == "timeout" {
			o.result = "unknown"
		}
		return
	}
	if first.result == "unsat" && !opt.all {
		o.result, o.solver = "unsat", first.solver
		return
	}
	if o.wantSat && first.result == "sat" {
		o.result, o.solver = "sat", first.solver
		return
	}
	// race the others (and z3-new again with the full timeout if it timed out)
	type r struct{ so solveOut }
	ch := make(chan solveOut, len(solvers))
	cctx, cancel := context.WithCancel(ctx)
	defer cancel()
	n := 0
	for i, sp := range solvers {
		if i == 0 && (first.result == "unsat" || first.result == "sat" || first.result == "error" || opt.fullSecs <= probe) {
			continue
		}
		n++
		secs := opt.fullSecs
		if first.result == "unsat" && opt.all {
			secs = opt.crossSecs // cross-check of an already discharged obligation: a short look for a disagreement
		}
		go func(sp solverSpec, secs int) { ch <- runSolver(cctx, sp, file, secs) }(sp, secs)
	}
	results := []solveOut{first}
	for k := 0; k < n; k++ {
		so := <-ch
		o.secs += so.secs
		results = append(results, so)
		if so.result == "unsat" && !opt.all && first.result != "sat" {
			cancel()
			break
		}
	}
	var unsat, sat *solveOut
	var errs []string
	for i := range results {
		switch results[i].result {
		case "unsat":
			if unsat == nil {
				unsat = &results[i]
			}
		case "sat":
			if sat == nil {
				sat = &results[i]
			}
		case "error":
			errs = append(errs, results[i].solver+": "+firstLines(results[i].raw, 3))
		}
	}
	switch {
	case unsat != nil && sat != nil:
		o.result, o.solver = "error", "disagreement"
		o.model = fmt.Sprintf("solvers disagree: %s says unsat, %s says sat", unsat.solver, sat.solver)
	case unsat != nil:
		o.result, o.solver = "unsat", unsat.solver
		for i := range results {
			if results[i].result == "unsat" && results[i].solver != unsat.solver {
				o.alsoUnsat = append(o.alsoUnsat, results[i].solver)
			}
		}
	case sat != nil:
		o.result, o.solver, o.model = "sat", sat.solver, sat.model
	case len(errs) == len(results):
		o.result, o.solver, o.model = "error", "all", strings.Join(errs, "\n")
	default:
		o.result, o.solver = "unknown", "all"
		var parts []string
		for _, r := range results {
			parts = append(parts, fmt.Sprintf("%s: %s (%.1fs)", r.solver, r.result, r.secs))
		}
		o.model = strings.Join(parts, "; ")
		if len(errs) > 0 {
			o.model += "\n" + strings.Join(errs, "\n")
		}
	}
}

func firstLines(s string, n int) string {
	ls := strings.Split(strings.TrimSpace(s), "\n")
	if len(ls) > n {
		ls = ls[:n]
	}
	return strings.Join(ls, " | ")
}
