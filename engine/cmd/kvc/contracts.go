package main

// Contract files: comment-only Go files (build tag verif) in /repo packages, plus
// *.contracts files under /verif/theory for code outside /repo.  A file contains
// blocks  /*@ <header> \n <clauses> @*/ .
//
//   theory <name>            raw SMT-LIB text; line ";; uses <go types...>" forces datatypes
//   func <canonical name>    contract of a function in /repo, verified against its SSA
//   assumed func <name>      contract of a function that is NOT verified (trusted)
//   iface <pkg.Iface.Method> contract of an interface method
//   opaque <glob> ...        callees assumed to have no effect on modelled state
//   chaninv <Struct.field>   invariant of the values carried by a channel field ($val)
//   lemma <name>             pure SMT lemma (theory + assume* + prove*)
//
// Clauses (one per keyword line, continuation lines belong to the clause):
//   props C01 C02 ...
//   theory a b ...
//   requires [label] F       ensures [label] F       exit [label] F
//   modifies lv ...          (lv: x.f   x.f[]   for map contents)
//   ghost name : Sort := F
//   loop N inv [label] F
//   at <anchor> assert [label] F | assume [label] F | set g := F
//   implements <iface method>
//   allow panic
//   fresh result
//   assume [label] F / prove [label] F   (lemma blocks)

import (
	"fmt"
	"os"
	"path/filepath"
	"regexp"
	"sort"
	"strconv"
	"strings"
)

type clause struct {
	props  []string // per-clause property override ([label @C19 @C17])
	kind   string // requires ensures exit ghost loopinv at-assert at-assume at-set assume prove
	label  string
	f      *sx
	src    string
	loop   int    // loopinv
	anchor string // at-*
	gname  string // ghost / at-set
	gsort  string // ghost
	line   int
}

type block struct {
	kind      string // theory func assumed iface opaque chaninv lemma
	name      string
	file      string
	line      int
	props     []string
	theories  []string
	clauses   []*clause
	modifies  []string
	impl      []string
	allowPan  bool
	freshRes  bool
	frozenRes bool
	text      string   // theory raw text
	uses      []string // theory: go types to force
	globs     []string // opaque
	used      bool
	trustNote string
}

type contractDB struct {
	theories map[string]*block
	funcs    map[string]*block // func + assumed
	ifaces   map[string]*block
	opaque   []string
	opaqueRe []*regexp.Regexp
	chaninv  map[string]*block
	lemmas   map[string]*block
	order    []*block
	immutable  map[string]bool // Struct.field: written only at construction, modelled as a pure function
	frozen     map[string]bool // Struct.field holding a map whose contents never change once stored
	frozenType map[string]bool // named map types whose values never change once converted
	neverClosedType map[string]bool // element types T: no channel of T is ever closed in /repo
	neverClosed map[string]bool // Struct.field channels that no code in /repo closes (receives never see "closed")
	nonnilGlobal map[string]bool // package-level variables initialised once with a non-nil value and never reassigned
	owners      map[string][]string // owner function -> fields (Struct.field) only it (and its callees) may touch
	nonblocking map[string]bool     // Struct.field / func:local channels that may only be sent on inside a select with default
}

var clauseKeywords = map[string]bool{
	"props": true, "theory": true, "requires": true, "ensures": true, "exit": true, "modifies": true,
	"ghost": true, "loop": true, "at": true, "implements": true, "allow": true, "fresh": true,
	"assume": true, "prove": true, "note": true, "var": true, "frozen": true,
	"call": true, "induct": true, "apply": true, "watches": true,
}

var blockRe = regexp.MustCompile(`(?s)/\*@(.*?)@\*/`)

func loadContracts(files []string) (*contractDB, error) {
	db := &contractDB{theories: map[string]*block{}, funcs: map[string]*block{}, ifaces: map[string]*block{}, chaninv: map[string]*block{}, lemmas: map[string]*block{}, immutable: map[string]bool{}, frozen: map[string]bool{}, frozenType: map[string]bool{}, neverClosed: map[string]bool{}, neverClosedType: map[string]bool{}, nonnilGlobal: map[string]bool{}, owners: map[string][]string{}, nonblocking: map[string]bool{}}
	sort.Strings(files)
	for _, f := range files {
		data, err := os.ReadFile(f)
		if err != nil {
			return nil, err
		}
		src := string(data)
		for _, m := range blockRe.FindAllStringSubmatchIndex(src, -1) {
			body := src[m[2]:m[3]]
			line := 1 + strings.Count(src[:m[2]], "\n")
			b, err := parseBlock(body, f, line)
			if err != nil {
				return nil, fmt.Errorf("%s:%d: %v", f, line, err)
			}
			if err := db.add(b); err != nil {
				return nil, fmt.Errorf("%s:%d: %v", f, line, err)
			}
		}
	}
	return db, nil
}

func (db *contractDB) add(b *block) error {
	put := func(m map[string]*block) error {
		if _, dup := m[b.name]; dup {
			return fmt.Errorf("duplicate %s block %q", b.kind, b.name)
		}
		m[b.name] = b
		return nil
	}
	db.order = append(db.order, b)
	switch b.kind {
	case "theory":
		return put(db.theories)
	case "func", "assumed":
		return put(db.funcs)
	case "iface":
		return put(db.ifaces)
	case "chaninv":
		return put(db.chaninv)
	case "lemma":
		return put(db.lemmas)
	case "immutable":
		for _, g := range b.globs {
			db.immutable[g] = true
		}
	case "frozen":
		for _, g := range b.globs {
			db.frozen[g] = true
		}
	case "frozen-type":
		for _, g := range b.globs {
			db.frozenType[g] = true
		}
	case "neverclosed":
		for _, g := range b.globs {
			if strings.HasPrefix(g, "type:") {
				db.neverClosedType[strings.TrimPrefix(g, "type:")] = true
			} else {
				db.neverClosed[g] = true
			}
		}
	case "nonnil-global":
		for _, g := range b.globs {
			db.nonnilGlobal[g] = true
		}
	case "nonblocking-send":
		for _, g := range b.globs {
			db.nonblocking[g] = true
		}
	case "owner":
		if len(b.globs) < 2 {
			return fmt.Errorf("owner block: expected '<owner function> <Struct.field>...'")
		}
		db.owners[b.globs[0]] = append(db.owners[b.globs[0]], b.globs[1:]...)
	case "opaque":
		for _, g := range b.globs {
			db.opaque = append(db.opaque, g)
			re := regexp.MustCompile("^" + strings.ReplaceAll(regexp.QuoteMeta(g), `\*`, ".*") + "$")
			db.opaqueRe = append(db.opaqueRe, re)
		}
	}
	return nil
}

func (db *contractDB) isOpaque(name string) bool {
	for _, re := range db.opaqueRe {
		if re.MatchString(name) {
			return true
		}
	}
	return false
}

func parseBlock(body, file string, line int) (*block, error) {
	lines := strings.Split(body, "\n")
	// header = first non-empty line
	hi := 0
	for hi < len(lines) && strings.TrimSpace(lines[hi]) == "" {
		hi++
	}
	if hi >= len(lines) {
		return nil, fmt.Errorf("empty contract block")
	}
	hdr := strings.Fields(lines[hi])
	b := &block{file: file, line: line + hi}
	switch hdr[0] {
	case "theory", "func", "iface", "lemma", "chaninv":
		if len(hdr) < 2 {
			return nil, fmt.Errorf("%s block needs a name", hdr[0])
		}
		b.kind, b.name = hdr[0], strings.Join(hdr[1:], " ")
	case "assumed":
		if len(hdr) < 3 || hdr[1] != "func" {
			return nil, fmt.Errorf("expected 'assumed func <name>'")
		}
		b.kind, b.name = "assumed", strings.Join(hdr[2:], " ")
	case "opaque", "immutable", "frozen", "frozen-type", "neverclosed", "nonnil-global", "owner", "nonblocking-send":
		b.kind = hdr[0]
		b.globs = hdr[1:]
		for _, l := range lines[hi+1:] {
			b.globs = append(b.globs, strings.Fields(l)...)
		}
		return b, nil
	default:
		return nil, fmt.Errorf("unknown block kind %q", hdr[0])
	}
	rest := lines[hi+1:]
	if b.kind == "theory" {
		b.text = strings.Join(rest, "\n")
		for _, l := range rest {
			t := strings.TrimSpace(l)
			if strings.HasPrefix(t, ";; uses ") {
				b.uses = append(b.uses, strings.Fields(t[8:])...)
			}
			if strings.HasPrefix(t, ";; theory ") {
				b.theories = append(b.theories, strings.Fields(t[10:])...)
			}
		}
		forms, err := parseSxMany(b.text)
		if err != nil {
			return nil, fmt.Errorf("theory %s: %v", b.name, err)
		}
		for _, s := range declaredSymbols(forms) {
			if smtReserved[s] {
				return nil, fmt.Errorf("theory %s declares reserved SMT-LIB word %q", b.name, s)
			}
		}
		return b, nil
	}
	// group lines into clauses
	type raw struct {
		kw   string
		text string
		line int
	}
	var raws []*raw
	for i, l := range rest {
		t := strings.TrimSpace(l)
		if t == "" || strings.HasPrefix(t, ";") {
			continue
		}
		first := strings.Fields(t)[0]
		if clauseKeywords[first] {
			raws = append(raws, &raw{kw: first, text: strings.TrimSpace(t[len(first):]), line: line + hi + 1 + i})
			continue
		}
		if len(raws) == 0 {
			return nil, fmt.Errorf("text before first clause: %q", t)
		}
		// strip trailing comment
		raws[len(raws)-1].text += "\n" + l
	}
	for _, r := range raws {
		if err := b.addClause(r.kw, r.text, r.line); err != nil {
			return nil, fmt.Errorf("line %d (%s): %v", r.line, r.kw, err)
		}
	}
	return b, nil
}

var labelRe = regexp.MustCompile(`^\[([^\]]+)\]\s*`)

func takeLabel(text string) (string, string) {
	if m := labelRe.FindStringSubmatch(text); m != nil {
		return m[1], text[len(m[0]):]
	}
	return "", text
}

func (b *block) addClause(kw, text string, line int) error {
	mk := func(kind, text string) (*clause, error) {
		label, rest := takeLabel(text)
		var props []string
		if i := strings.Index(label, " @"); i >= 0 {
			for _, p := range strings.Fields(label[i:]) {
				props = append(props, strings.TrimPrefix(p, "@"))
			}
			label = strings.TrimSpace(label[:i])
		}
		f, err := parseSx(rest)
		if err != nil {
			return nil, err
		}
		return &clause{kind: kind, label: label, f: f, src: rest, line: line, props: props}, nil
	}
	switch kw {
	case "props":
		b.props = append(b.props, strings.Fields(text)...)
	case "theory":
		b.theories = append(b.theories, strings.Fields(text)...)
	case "modifies":
		b.modifies = append(b.modifies, strings.Fields(text)...)
	case "implements":
		b.impl = append(b.impl, strings.Fields(text)...)
	case "note":
		b.trustNote += text + " "
	case "allow":
		if strings.TrimSpace(text) != "panic" {
			return fmt.Errorf("expected 'allow panic'")
		}
		b.allowPan = true
	case "frozen":
		if strings.TrimSpace(text) != "result" {
			return fmt.Errorf("expected 'frozen result'")
		}
		b.frozenRes = true
	case "fresh":
		if strings.TrimSpace(text) != "result" {
			return fmt.Errorf("expected 'fresh result'")
		}
		b.freshRes = true
	case "requires", "ensures", "exit", "assume", "prove":
		c, err := mk(kw, text)
		if err != nil {
			return err
		}
		b.clauses = append(b.clauses, c)
	case "call":
		// call r := <function> arg...   (lemma blocks: a call satisfying the callee's preconditions; its postconditions are assumed)
		i := strings.Index(text, ":=")
		if i < 0 {
			return fmt.Errorf("call needs ':='")
		}
		name := strings.TrimSpace(text[:i])
		if smtReserved[name] || name == "" {
			return fmt.Errorf("call result name %q", name)
		}
		if len(strings.Fields(text[i+2:])) == 0 {
			return fmt.Errorf("call needs a function name")
		}
		b.clauses = append(b.clauses, &clause{kind: "call", gname: name, src: strings.TrimSpace(text[i+2:]), line: line})
	case "watches":
		// watches [label] <channel expression or method name> ...: every blocking select of the function with more
		// than one case has a receive case on that channel (the actor never stops listening to it)
		label, rest := takeLabel(text)
		for _, a := range strings.Fields(rest) {
			b.clauses = append(b.clauses, &clause{kind: "watches", label: label, anchor: a, src: text, line: line})
		}
	case "induct":
		b.clauses = append(b.clauses, &clause{kind: "induct", gname: strings.TrimSpace(text), line: line})
	case "apply":
		// apply <lemma> (x term) (y term) ...
		fs := strings.Fields(text)
		if len(fs) == 0 {
			return fmt.Errorf("apply needs a lemma name")
		}
		f, err := parseSx("(" + strings.TrimSpace(strings.TrimPrefix(strings.TrimSpace(text), fs[0])) + ")")
		if err != nil {
			return err
		}
		b.clauses = append(b.clauses, &clause{kind: "apply", gname: fs[0], f: f, src: text, line: line})
	case "var":
		j := strings.Index(text, ":")
		if j < 0 {
			return fmt.Errorf("var needs ': Sort'")
		}
		name := strings.TrimSpace(text[:j])
		if smtReserved[name] {
			return fmt.Errorf("var name %q is a reserved SMT-LIB word", name)
		}
		b.clauses = append(b.clauses, &clause{kind: "var", gname: name, gsort: strings.TrimSpace(text[j+1:]), line: line})
	case "ghost":
		// name : Sort := F
		i := strings.Index(text, ":=")
		if i < 0 {
			return fmt.Errorf("ghost needs ':='")
		}
		decl, init := text[:i], text[i+2:]
		j := strings.Index(decl, ":")
		if j < 0 {
			return fmt.Errorf("ghost needs ': Sort'")
		}
		f, err := parseSx(init)
		if err != nil {
			return err
		}
		name := strings.TrimSpace(decl[:j])
		if smtReserved[name] {
			return fmt.Errorf("ghost name %q is a reserved SMT-LIB word", name)
		}
		b.clauses = append(b.clauses, &clause{kind: "ghost", gname: name, gsort: strings.TrimSpace(decl[j+1:]), f: f, src: init, line: line})
	case "loop":
		fs := strings.Fields(text)
		if len(fs) < 3 || fs[1] != "inv" {
			return fmt.Errorf("expected 'loop N inv [label] F'")
		}
		n, err := strconv.Atoi(fs[0])
		if err != nil {
			return fmt.Errorf("loop ordinal: %v", err)
		}
		rest := strings.TrimSpace(text[strings.Index(text, "inv")+3:])
		c, err := mk("loopinv", rest)
		if err != nil {
			return err
		}
		c.loop = n
		b.clauses = append(b.clauses, c)
	case "at":
		fs := strings.Fields(text)
		if len(fs) < 3 {
			return fmt.Errorf("expected 'at <anchor> assert|assume|set ...'")
		}
		anchor, verb := fs[0], fs[1]
		afterAnchor := strings.TrimSpace(strings.TrimPrefix(strings.TrimSpace(text), anchor))
		rest := strings.TrimSpace(strings.TrimPrefix(afterAnchor, verb))
		switch verb {
		case "assert", "assume":
			c, err := mk("at-"+verb, rest)
			if err != nil {
				return err
			}
			c.anchor = anchor
			b.clauses = append(b.clauses, c)
		case "set":
			i := strings.Index(rest, ":=")
			if i < 0 {
				return fmt.Errorf("'at .. set' needs ':='")
			}
			f, err := parseSx(rest[i+2:])
			if err != nil {
				return err
			}
			b.clauses = append(b.clauses, &clause{kind: "at-set", anchor: anchor, gname: strings.TrimSpace(rest[:i]), f: f, src: rest[i+2:], line: line})
		case "apply":
			// at <anchor> apply <lemma> (x term) ...   (terms may contain holes)
			rs := strings.Fields(rest)
			if len(rs) == 0 {
				return fmt.Errorf("'at .. apply' needs a lemma name")
			}
			f, err := parseSx("(" + strings.TrimSpace(strings.TrimPrefix(rest, rs[0])) + ")")
			if err != nil {
				return err
			}
			b.clauses = append(b.clauses, &clause{kind: "at-apply", anchor: anchor, gname: rs[0], f: f, src: rest, line: line})
		default:
			return fmt.Errorf("unknown verb %q after anchor", verb)
		}
	}
	return nil
}

func (b *block) byKind(kind string) []*clause {
	var out []*clause
	for _, c := range b.clauses {
		if c.kind == kind {
			out = append(out, c)
		}
	}
	return out
}

func (c *clause) name(i int) string {
	if c.label != "" {
		return c.label
	}
	return fmt.Sprintf("%d", i+1)
}

// contractFiles lists the contract files: zz_contracts_verif.go below repo and
// *.contracts below theoryDir.
func contractFiles(repo, theoryDir string) ([]string, error) {
	var out []string
	err := filepath.Walk(repo, func(p string, info os.FileInfo, err error) error {
		if err != nil {
			return err
		}
		if info.IsDir() && (info.Name() == ".git" || info.Name() == "_example") {
			return filepath.SkipDir
		}
		if !info.IsDir() && strings.HasSuffix(info.Name(), "_contracts_verif.go") {
			out = append(out, p)
		}
		return nil
	})
	if err != nil {
		return nil, err
	}
	more, _ := filepath.Glob(filepath.Join(theoryDir, "*.contracts"))
	out = append(out, more...)
	return out, nil
}
