package main

// Channel operations, select, go.  Ghost state per channel reference, recording
// only what THIS function does (it is the sole sender / receiver / closer of
// the channels it owns; ownership is checked separately):
//   ch!closed            (Array V Bool)        closed by this function
//   |ch!sent!<sort>|     (Array V (Slice S))   values sent by this function, in order
//   |ch!rcvd!<sort>|     (Array V (Slice S))   values received by this function, in order
//   ch!full              (Array V Bool)        last non-blocking send attempt found no room

import (
	"fmt"
	"go/token"
	"go/types"
	"strings"

	"golang.org/x/tools/go/ssa"
)

// appendT: s ++ [v]; srt is the slice sort "(Slice X)".
func appendT(srt, s, v string) string {
	return fmt.Sprintf("((as mkslice %s) (store (sarr %s) (slen %s) %s) (+ (slen %s) 1))", srt, s, s, v, s)
}

func (fc *fnCtx) chanElem(ch Val, v ssa.Value) types.Type {
	return v.Type().Underlying().(*types.Chan).Elem()
}

func (fc *fnCtx) seqVar(kind string, elemSort string) (string, string) {
	return "|ch!" + kind + "!" + sortKey(elemSort) + "|", "(Array V (Slice " + elemSort + "))"
}

func (fc *fnCtx) chanSend(st *state, ch, v Val, cond string, pos token.Pos, ins ssa.Instruction) {
	b := map[string]Val{"$ch": ch, "$val": v}
	fc.anchorBP(st, "send", ins, b, ch, false, cond, pos)
	cl := fc.heapVar(st, "ch!closed", "(Array V Bool)")
	goal := fmt.Sprintf("(not (select %s %s))", cl, ch.T)
	if cond != "true" {
		goal = fmt.Sprintf("(=> %s %s)", cond, goal)
	}
	fc.safety(st, "send-on-closed", goal, pos)
	if inv := fc.chanInv(st, ch, v); inv != "" {
		g := inv
		if cond != "true" {
			g = fmt.Sprintf("(=> %s %s)", cond, inv)
		}
		fc.assert(st, "chaninv", fmt.Sprintf("chaninv.send#%d", fc.site("chaninv.send")), g, "channel invariant of "+fc.prov[ch.T], pos)
	}
	hv, hs := fc.seqVar("sent", v.S)
	h := fc.heapVar(st, hv, hs)
	cur := fmt.Sprintf("(select %s %s)", h, ch.T)
	nv := appendT("(Slice "+v.S+")", cur, v.T)
	if cond != "true" {
		nv = fmt.Sprintf("(ite %s %s %s)", cond, nv, cur)
	}
	fc.setHeap(st, hv, hs, fmt.Sprintf("(store %s %s %s)", h, ch.T, nv))
	fc.anchorBP(st, "send", ins, b, ch, true, cond, pos)
}

func (fc *fnCtx) chanRecv(st *state, ch Val, cond string, pos token.Pos, ins ssa.Instruction, blocking bool) (Val, Val) {
	et := ch.Ty.Underlying().(*types.Chan).Elem()
	es := fc.sortOf(et)
	if es == "BIG" {
		unsup("channel of big struct")
	}
	v := fc.freshVal(st, "rcv", et)
	ok := Val{T: fc.fresh("rcvok", "Bool"), S: "Bool"}
	fc.assume(st, fmt.Sprintf("(=> (not %s) (= %s %s))", ok.T, v.T, fc.e.sorts.zeroOfSort(es)))
	if v.S == "V" {
		al := fc.heapVar(st, "alloc", "(Array V Bool)")
		fc.assume(st, fmt.Sprintf("(or (= %s vnil) (select %s %s))", v.T, al, v.T))
	}
	if p, okp := fc.prov[ch.T]; okp {
		key := strings.Replace(strings.TrimPrefix(p, "H!"), "!", ".", 1)
		if fc.e.db.neverClosed[key] {
			fc.assume(st, ok.T) // no code in /repo closes this channel (structural obligation neverclosed.*)
		}
	}
	if fc.e.db.neverClosedType[typeName(et)] {
		fc.assume(st, ok.T) // no code in /repo closes a channel of this element type (structural obligation neverclosed.type:*)
	}
	if inv := fc.chanInv(st, ch, v); inv != "" {
		fc.assume(st, fmt.Sprintf("(=> (and %s %s) %s)", cond, ok.T, inv))
		fc.trusted["chaninv "+fc.prov[ch.T]+" (proved at the sends in /repo)"] = true
	}
	hv, hs := fc.seqVar("rcvd", es)
	h := fc.heapVar(st, hv, hs)
	cur := fmt.Sprintf("(select %s %s)", h, ch.T)
	fc.setHeap(st, hv, hs, fmt.Sprintf("(store %s %s (ite (and %s %s) %s %s))", h, ch.T, cond, ok.T, appendT("(Slice "+es+")", cur, v.T), cur))
	bare := "false"
	if _, isUn := ins.(*ssa.UnOp); isUn {
		bare = "true"
	}
	b := map[string]Val{"$ch": ch, "$val": v, "$ok": ok, "$bare": {T: bare, S: "Bool"}}
	fc.anchorBP(st, "recv", ins, b, ch, true, cond, pos)
	return v, ok
}

// chanInv instantiates the channel invariant registered for the struct field
// the channel reference was loaded from.
func (fc *fnCtx) chanInv(st *state, ch, v Val) string {
	var blks []*block
	if p, ok := fc.prov[ch.T]; ok {
		key := strings.TrimPrefix(p, "H!")
		key = strings.Replace(key, "!", ".", 1)
		if blk, ok := fc.e.db.chaninv[key]; ok {
			blks = append(blks, blk)
		}
	}
	// invariant of every channel with this element type (asserted at every send in /repo)
	if ct, ok := ch.Ty.Underlying().(*types.Chan); ok {
		if blk, ok := fc.e.db.chaninv["type:"+typeName(ct.Elem())]; ok {
			blks = append(blks, blk)
		}
	}
	var parts []string
	for _, blk := range blks {
		blk.used = true
		for _, c := range blk.clauses {
			if c.kind != "ensures" && c.kind != "requires" {
				continue
			}
			t := fc.evalFormula(c.f, &evalCtx{cur: st, old: st, bind: map[string]Val{"$val": v, "$ch": ch}})
			parts = append(parts, t)
		}
		for _, th := range blk.theories {
			fc.theories[th] = true
		}
	}
	if len(parts) == 0 {
		return ""
	}
	if len(parts) == 1 {
		return parts[0]
	}
	return "(and " + strings.Join(parts, " ") + ")"
}

// chanMatches: the channel is the struct field / call result / expression the anchor argument names.
func (fc *fnCtx) chanMatches(st *state, ch Val, arg string) bool {
	if p, ok := fc.prov[ch.T]; ok && strings.HasSuffix(p, "!"+arg) {
		return true
	}
	if fc.callOf[ch.T] == arg {
		return true
	}
	var t string
	func() {
		defer func() { recover() }()
		t = fc.evalHole(arg, &evalCtx{cur: st, old: fc.entry, bind: map[string]Val{}}).T
	}()
	return t != "" && t == ch.T
}

func (fc *fnCtx) execSelect(st *state, i *ssa.Select) {
	n := len(i.States)
	idx := fc.fresh("sel", "Int")
	lo := 0
	if !i.Blocking {
		lo = -1
	}
	fc.assume(st, fmt.Sprintf("(and (<= %s %s) (< %s %d))", numLit(fmt.Sprint(lo)), idx, idx, n))
	fc.selIdx[i] = idx
	tuple := []Val{{T: idx, S: "Int"}, {}}
	okT := "false"
	var sendChans []Val
	for k, s := range i.States {
		ch := fc.val(s.Chan)
		ch.Ty = s.Chan.Type()
		cond := fmt.Sprintf("(= %s %d)", idx, k)
		fc.assume(st, fmt.Sprintf("(=> %s (not (= %s vnil)))", cond, ch.T))
		if s.Dir == types.SendOnly {
			fc.chanSend(st, ch, fc.val(s.Send), cond, s.Pos, i)
			sendChans = append(sendChans, ch)
		} else {
			v, ok := fc.chanRecv(st, ch, cond, s.Pos, i, i.Blocking)
			tuple = append(tuple, v)
			okT = fmt.Sprintf("(ite %s %s %s)", cond, ok.T, okT)
		}
	}
	tuple[1] = Val{T: fc.def("Bool", okT), S: "Bool"}
	if i.Blocking && n > 1 && fc.blk != nil {
		for _, c := range fc.blk.byKind("watches") {
			found := false
			for _, s := range i.States {
				if s.Dir == types.SendOnly {
					continue
				}
				ch := fc.val(s.Chan)
				if fc.chanMatches(st, ch, c.anchor) {
					found = true
				}
			}
			fc.anchorsHit[c]++
			goal := "true"
			if !found {
				goal = "false"
			}
			o := fc.assert(st, "at", fmt.Sprintf("select.watches(%s)#%d", c.anchor, fc.site("watches."+c.anchor)), goal,
				"every blocking select of the actor loop has a receive case on "+c.anchor+" (taken directly from its source, not from a variable that may be nil)", i.Pos())
			if !found {
				o.trivial = false
			}
		}
	}
	if !i.Blocking {
		// default taken: every send case found no room (Go semantics of select/default)
		fl := fc.heapVar(st, "ch!full", "(Array V Bool)")
		t := fl
		for _, ch := range sendChans {
			t = fmt.Sprintf("(store %s %s (= %s (- 1)))", t, ch.T, idx)
		}
		fc.setHeap(st, "ch!full", "(Array V Bool)", t)
		// anchors "default": the default branch of this select is taken
		fc.runAnchors(st, "default", func(string) bool { return true }, 0, map[string]Val{}, false, fmt.Sprintf("(= %s (- 1))", idx), i.Pos())
	}
	fc.env[i] = tuple
}

func (fc *fnCtx) execGo(st *state, i *ssa.Go) {
	name := ""
	switch f := i.Call.Value.(type) {
	case *ssa.Function:
		name = canonName(f)
	case *ssa.MakeClosure:
		fn := f.Fn.(*ssa.Function)
		name = canonName(fn)
		// a spawned closure must not assign to captured variables (it would race with the spawner)
		for _, b := range fn.Blocks {
			for _, ins := range b.Instrs {
				if s, ok := ins.(*ssa.Store); ok {
					if _, isFV := s.Addr.(*ssa.FreeVar); isFV {
						unsup("spawned closure %s assigns to a captured variable", name)
					}
				}
			}
		}
	default:
		if i.Call.IsInvoke() {
			name = "invoke." + i.Call.Method.Name()
		} else {
			name = "dynamic"
		}
	}
	fc.spawns = append(fc.spawns, name)
	b := map[string]Val{}
	for k, a := range i.Call.Args {
		if x, ok := fc.env[a]; ok {
			if v, ok := x.(Val); ok {
				b[fmt.Sprintf("$%d", k)] = v
			}
		} else if _, isC := a.(*ssa.Const); isC {
			b[fmt.Sprintf("$%d", k)] = fc.val(a)
		}
	}
	if i.Call.IsInvoke() {
		b["$recv"] = fc.val(i.Call.Value)
	}
	fc.anchorNamed(st, "go", shortName(name), name, i, b, false)
}

func shortName(canon string) string {
	if k := strings.LastIndex(canon, "."); k >= 0 {
		return canon[k+1:]
	}
	return canon
}
