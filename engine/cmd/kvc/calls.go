package main

import (
	"fmt"
	"go/ast"
	"go/parser"
	"go/token"
	"go/types"
	"regexp"
	"strconv"
	"strings"

	"golang.org/x/tools/go/ssa"
)

// ---- anchors -------------------------------------------------------------------

type anchorSpec struct {
	kind  string
	arg   string
	ord   int
	after bool
	sort  string // optional filter on the sort of $val (send / recv anchors): V, Slice, Int, Bool, Str
}

var anchorRe = regexp.MustCompile(`^([a-z][a-z-]*)(?:\(([^)]*)\))?(?::(V|Slice|Int|Bool|Str))?(?:#(\d+))?(?:\.(before|after))?$`)

func parseAnchor(s string) (*anchorSpec, error) {
	m := anchorRe.FindStringSubmatch(s)
	if m == nil {
		return nil, fmt.Errorf("bad anchor %q", s)
	}
	a := &anchorSpec{kind: m[1], arg: m[2], sort: m[3]}
	if m[4] != "" {
		a.ord, _ = strconv.Atoi(m[4])
	}
	a.after = m[5] == "after"
	if a.kind == "recv" {
		a.after = true
	}
	return a, nil
}

// runAnchors performs the at-clauses whose anchor matches.
func (fc *fnCtx) runAnchors(st *state, kind string, match func(arg string) bool, ord int, bind map[string]Val, after bool, cond string, pos token.Pos) {
	if fc.blk == nil {
		return
	}
	for _, c := range fc.blk.clauses {
		if !strings.HasPrefix(c.kind, "at-") {
			continue
		}
		a, err := parseAnchor(c.anchor)
		if err != nil {
			panic(unsupported{err.Error()})
		}
		if a.kind != kind || a.after != after || !match(a.arg) || (a.ord != 0 && a.ord != ord) {
			continue
		}
		if a.sort != "" {
			v, has := bind["$val"]
			if !has || !(v.S == a.sort || (a.sort == "Slice" && strings.HasPrefix(v.S, "(Slice "))) {
				fc.anchorsSeen[c]++ // the anchor exists in the code, this site carries another sort
				continue
			}
		}
		fc.anchorsHit[c]++
		ev := &evalCtx{cur: st, old: fc.entry, bind: bind}
		if c.kind == "at-apply" {
			// the statement of a lemma (proved on its own) instantiated with terms of the current state
			g := fc.lemmaApply(c, ev)
			if cond != "true" {
				g = fmt.Sprintf("(=> %s %s)", cond, g)
			}
			fc.assume(st, g)
			continue
		}
		t, okc := fc.evalOwn(c, ev, "at."+c.anchor)
		if !okc {
			continue
		}
		switch c.kind {
		case "at-assert":
			g := t
			if cond != "true" {
				g = fmt.Sprintf("(=> %s %s)", cond, t)
			}
			fc.assert(st, "at", "at."+c.anchor+"."+c.name(0), g, c.src, pos)
			fc.assume(st, g) // an asserted fact may be used afterwards
		case "at-assume":
			g := t
			if cond != "true" {
				g = fmt.Sprintf("(=> %s %s)", cond, t)
			}
			fc.assume(st, g)
			fc.trusted["assume at "+c.anchor+" in "+fc.name+": "+strings.TrimSpace(c.src)] = true
		case "at-set":
			old, ok := st.ghost[c.gname]
			if !ok {
				panic(unsupported{"at-set of undeclared ghost " + c.gname})
			}
			nv := t
			if cond != "true" {
				nv = fmt.Sprintf("(ite %s %s %s)", cond, t, old.T)
			}
			st.ghost[c.gname] = Val{T: fc.def(old.S, nv), S: old.S}
		}
	}
}

func (fc *fnCtx) anchor(st *state, kind string, ins ssa.Instruction, bind map[string]Val, target string, after bool) {
	if target == "" {
		return
	}
	fc.runAnchors(st, kind, func(arg string) bool { return arg == target }, fc.ordOf(kind+":"+target, ins.Pos()), bind, after, "true", ins.Pos())
}

// anchorB matches channel anchors: the anchor argument is a Go expression that
// must evaluate to the same term as the channel operand, or name the struct
// field the channel was loaded from.
func (fc *fnCtx) anchorB(st *state, kind string, ins ssa.Instruction, bind map[string]Val, ch Val, after bool, cond string) {
	fc.anchorBP(st, kind, ins, bind, ch, after, cond, ins.Pos())
}

func (fc *fnCtx) anchorBP(st *state, kind string, ins ssa.Instruction, bind map[string]Val, ch Val, after bool, cond string, pos token.Pos) {
	if fc.blk == nil {
		return
	}
	match := func(arg string) bool {
		if arg == "" {
			return true
		}
		if p, ok := fc.prov[ch.T]; ok && strings.HasSuffix(p, "!"+arg) {
			return true
		}
		if fc.callOf[ch.T] == arg {
			return true // the channel is the result of a call of that method/function
		}
		var t string
		func() {
			defer func() { recover() }()
			t = fc.evalHole(arg, &evalCtx{cur: st, old: fc.entry, bind: bind}).T
		}()
		return t != "" && t == ch.T
	}
	fc.runAnchors(st, kind, match, fc.ordOf(kind, pos), bind, after, cond, pos)
}

func (fc *fnCtx) anchorNamed(st *state, kind, short, full string, ins ssa.Instruction, bind map[string]Val, after bool) {
	fc.runAnchors(st, kind, func(arg string) bool { return arg == "" || arg == short || arg == full }, fc.ordOf(kind+":"+short, ins.Pos()), bind, after, "true", ins.Pos())
}

// ordOf: 1-based ordinal of the site at pos among the sites of the same key, in source order.
func (fc *fnCtx) ordOf(key string, pos token.Pos) int {
	for i, p := range fc.sitePos[key] {
		if p == pos {
			return i + 1
		}
	}
	return 0
}

func calleeShort(c *ssa.CallCommon) (short, full string) {
	if c.IsInvoke() {
		return c.Method.Name(), "invoke." + c.Method.Name()
	}
	switch f := c.Value.(type) {
	case *ssa.Function:
		full = canonName(f)
		return shortName(full), full
	case *ssa.Builtin:
		return f.Name(), f.Name()
	case *ssa.MakeClosure:
		full = canonName(f.Fn.(*ssa.Function))
		return shortName(full), full
	}
	return "dyncall", "dyncall"
}

func (fc *fnCtx) collectSites() {
	add := func(key string, pos token.Pos) { fc.sitePos[key] = append(fc.sitePos[key], pos) }
	for _, b := range fc.fn.Blocks {
		for _, ins := range b.Instrs {
			switch i := ins.(type) {
			case *ssa.Call:
				s, _ := calleeShort(&i.Call)
				add("call:"+s, i.Pos())
			case *ssa.Defer:
				s, _ := calleeShort(&i.Call)
				add("call:"+s, i.Pos())
			case *ssa.Go:
				s, _ := calleeShort(&i.Call)
				add("go:"+s, i.Pos())
			case *ssa.Store:
				if t := fc.storeTarget(i); t != "" {
					add("store:"+t, i.Pos())
				}
			case *ssa.Send:
				add("send", i.Pos())
			case *ssa.UnOp:
				if i.Op == token.ARROW {
					add("recv", i.Pos())
				}
			case *ssa.Select:
				for _, s := range i.States {
					if s.Dir == types.SendOnly {
						add("send", s.Pos)
					} else {
						add("recv", s.Pos)
					}
				}
			}
		}
	}
	for k := range fc.sitePos {
		ps := fc.sitePos[k]
		for i := 0; i < len(ps); i++ {
			for j := i + 1; j < len(ps); j++ {
				if ps[j] < ps[i] {
					ps[i], ps[j] = ps[j], ps[i]
				}
			}
		}
	}
}

// ---- calls ----------------------------------------------------------------------

func (fc *fnCtx) execCall(st *state, ins ssa.Instruction, c *ssa.CallCommon, res ssa.Value) {
	setRes := func(vals []Val) {
		if res == nil {
			return
		}
		sig := c.Signature()
		switch sig.Results().Len() {
		case 0:
		case 1:
			if len(vals) > 0 {
				fc.env[res] = vals[0]
			}
		default:
			fc.env[res] = vals
		}
	}
	short, full := calleeShort(c)
	if b, ok := c.Value.(*ssa.Builtin); ok {
		bb := map[string]Val{}
		if b.Name() == "len" || b.Name() == "cap" {
			bb["$0"] = fc.val(c.Args[0])
			fc.anchorNamed(st, "call", short, full, ins, bb, false)
		}
		rv := fc.execBuiltin(st, ins, c, b, res)
		setRes(rv)
		if (b.Name() == "len" || b.Name() == "cap") && len(rv) > 0 {
			bb["$result"] = rv[0]
			fc.anchorNamed(st, "call", short, full, ins, bb, true)
		}
		return
	}
	var args []Val
	for _, a := range c.Args {
		args = append(args, fc.val(a))
	}
	bind := map[string]Val{}
	for k, a := range args {
		bind[fmt.Sprintf("$%d", k)] = a
	}
	sig := c.Signature()
	var blk *block
	var name string
	switch {
	case c.IsInvoke():
		recv := fc.val(c.Value)
		recv.Ty = c.Value.Type()
		bind["$recv"] = recv
		fc.safety(st, "nil-receiver", fmt.Sprintf("(not (= %s vnil))", recv.T), ins.Pos())
		blk, name = fc.ifaceContract(c.Value.Type(), c.Method.Name())
		if blk != nil {
			for k := 0; k < sig.Params().Len(); k++ {
				if n := sig.Params().At(k).Name(); n != "" && n != "_" {
					v := args[k]
					v.Ty = sig.Params().At(k).Type()
					bind[n] = v
				}
			}
		}
	default:
		switch f := c.Value.(type) {
		case *ssa.Function:
			name = canonName(f)
			if name == "sort.Slice" {
				fc.anchorNamed(st, "call", "Slice", "sort.Slice", ins, bind, false)
				fc.sortSlice(st, c, ins)
				fc.anchorNamed(st, "call", "Slice", "sort.Slice", ins, bind, true)
				return
			}
			blk = fc.e.db.funcs[name]
			if blk != nil {
				bindParams(bind, f, args)
			}
		case *ssa.MakeClosure:
			fn := f.Fn.(*ssa.Function)
			name = canonName(fn)
			blk = fc.e.db.funcs[name]
			if blk != nil {
				bindParams(bind, fn, args)
			}
		default:
			// dynamic call of a function value: a deterministic function of (f, args); effects on
			// the modelled state: none (user callbacks are assumed not to touch library state)
			f2 := fc.val(c.Value)
			bind["$fn"] = f2
			fc.anchorNamed(st, "call", "dyncall", "dyncall", ins, bind, false)
			var vals []Val
			for k := 0; k < sig.Results().Len(); k++ {
				rt := sig.Results().At(k).Type()
				rs := fc.sortOf(rt)
				fnName := fmt.Sprintf("|dyn!%s!%d|", sortKey(sigKey(fc, sig)), k)
				argSorts := []string{"V"}
				ts := []string{f2.T}
				for _, a := range args {
					argSorts = append(argSorts, a.S)
					ts = append(ts, a.T)
				}
				fc.declFun(fnName, "("+strings.Join(argSorts, " ")+") "+rs)
				vals = append(vals, Val{T: fmt.Sprintf("(%s %s)", fnName, strings.Join(ts, " ")), S: rs, Ty: rt})
			}
			fc.trusted["dynamic calls of function values are pure functions of (callee, arguments) with no effect on modelled state"] = true
			setRes(vals)
			for k := range vals {
				bind[fmt.Sprintf("$result%d", k)] = vals[k]
			}
			if len(vals) > 0 {
				bind["$result"] = vals[0]
			}
			fc.anchorNamed(st, "call", "dyncall", "dyncall", ins, bind, true)
			return
		}
	}
	fc.anchorNamed(st, "call", short, full, ins, bind, false)
	var vals []Val
	switch {
	case blk != nil:
		vals = fc.applyContract(st, blk, bind, sig, short, ins.Pos())
	case fc.e.db.isOpaque(name):
		fc.trusted["opaque callee "+name+" (no effect on modelled state, result unconstrained)"] = true
		for k := 0; k < sig.Results().Len(); k++ {
			vals = append(vals, fc.freshVal(st, "opq", sig.Results().At(k).Type()))
		}
	case c.IsInvoke() && blk == nil:
		// interface method of /repo without a contract: nothing is known about its result; it is
		// assumed not to touch the state this function models (listed in the evidence)
		fc.trusted["uncontracted interface method "+name+" (result unconstrained, no effect on modelled state)"] = true
		for k := 0; k < sig.Results().Len(); k++ {
			vals = append(vals, fc.freshVal(st, "ifc", sig.Results().At(k).Type()))
		}
	case fc.isExternalCallee(c):
		// code outside /repo without a contract: result unconstrained, no effect on modelled state
		// (it cannot reach the library's unexported state except through its arguments)
		fc.trusted["uncontracted external callee "+name+" (result unconstrained, no effect on modelled state)"] = true
		for k := 0; k < sig.Results().Len(); k++ {
			vals = append(vals, fc.freshVal(st, "ext", sig.Results().At(k).Type()))
		}
	default:
		var callee *ssa.Function
		switch f := c.Value.(type) {
		case *ssa.Function:
			callee = f
		case *ssa.MakeClosure:
			callee = f.Fn.(*ssa.Function)
		}
		if callee == nil || c.IsInvoke() || len(callee.FreeVars) > 0 {
			unsup("call to %s has no contract", name)
		}
		vals = fc.inlineCall(st, callee, args)
	}
	for k := range vals {
		bind[fmt.Sprintf("$result%d", k)] = vals[k]
		if vals[k].S == "V" {
			fc.callOf[vals[k].T] = short
		}
	}
	if len(vals) > 0 {
		bind["$result"] = vals[0]
	}
	setRes(vals)
	fc.anchorNamed(st, "call", short, full, ins, bind, true)
}

func sigKey(fc *fnCtx, sig *types.Signature) string {
	var ps []string
	for k := 0; k < sig.Params().Len(); k++ {
		ps = append(ps, fc.sortOf(sig.Params().At(k).Type()))
	}
	return strings.Join(ps, ",")
}

func bindParams(bind map[string]Val, f *ssa.Function, args []Val) {
	if len(f.Params) == 0 && len(args) > 0 {
		// no body (outside /repo): names from the signature
		sig := f.Signature
		off := 0
		if sig.Recv() != nil {
			v := args[0]
			v.Ty = sig.Recv().Type()
			bind["$recv"] = v
			if n := sig.Recv().Name(); n != "" && n != "_" {
				bind[n] = v
			}
			off = 1
		}
		for k := 0; k < sig.Params().Len() && k+off < len(args); k++ {
			v := args[k+off]
			v.Ty = sig.Params().At(k).Type()
			if n := sig.Params().At(k).Name(); n != "" && n != "_" {
				bind[n] = v
			}
		}
		return
	}
	for k, p := range f.Params {
		if k < len(args) {
			v := args[k]
			v.Ty = p.Type()
			bind[p.Name()] = v
			if k == 0 && f.Signature.Recv() != nil {
				bind["$recv"] = v
			}
		}
	}
	if theEngine != nil {
		for old, cur := range theEngine.paramRenames(f) {
			if b, ok := bind[cur]; ok {
				if _, clash := bind[old]; !clash {
					bind[old] = b
				}
			}
		}
	}
}

// theEngine: the engine of this process (bindParams is a plain function used from several places).
var theEngine *engine

// ifaceContract finds the contract of method m of interface type t (or of an
// interface it embeds).
func (fc *fnCtx) ifaceContract(t types.Type, m string) (*block, string) {
	name := typeName(t) + "." + m
	if b, ok := fc.e.db.ifaces[name]; ok {
		return b, name
	}
	if it, ok := t.Underlying().(*types.Interface); ok {
		for i := 0; i < it.NumEmbeddeds(); i++ {
			if b, n := fc.ifaceContract(it.EmbeddedType(i), m); b != nil {
				return b, n
			}
		}
	}
	return nil, name
}

// applyContract: assert requires, havoc the frame, produce fresh results, assume ensures.
func (fc *fnCtx) applyContract(st *state, blk *block, bind map[string]Val, sig *types.Signature, short string, pos token.Pos) []Val {
	blk.used = true
	for _, th := range blk.theories {
		fc.theories[th] = true
	}
	if blk.kind == "assumed" {
		fc.trusted["assumed contract of "+blk.name] = true
	}
	if blk.kind == "iface" {
		fc.trusted["interface contract "+blk.name+" (implementations outside /repo are assumed to satisfy it)"] = true
	}
	pre := st.clone()
	ev := &evalCtx{cur: st, old: pre, bind: bind, callee: true}
	for i, c := range blk.byKind("requires") {
		t := fc.evalFormula(c.f, ev)
		fc.assert(st, "requires", fmt.Sprintf("call.%s/requires.%s", short, c.name(i)), t, c.src, pos)
	}
	for _, lv := range blk.modifies {
		fc.havocLvalue(st, lv, &evalCtx{cur: pre, old: pre, bind: bind, callee: true})
	}
	var vals []Val
	b2 := map[string]Val{}
	for k, v := range bind {
		b2[k] = v
	}
	for k := 0; k < sig.Results().Len(); k++ {
		rt := sig.Results().At(k).Type()
		var v Val
		if blk.freshRes && k == 0 && fc.sortOf(rt) == "V" {
			v = fc.allocRef(st, "res", rt)
		} else {
			v = fc.freshVal(st, "res", rt)
			if v.S == "V" {
				al := fc.heapVar(st, "alloc", "(Array V Bool)")
				_ = al
			}
		}
		if blk.frozenRes && k == 0 {
			if mt, ok := rt.Underlying().(*types.Map); ok {
				fc.thaw(st, v, mt)
			}
		}
		vals = append(vals, v)
		b2[fmt.Sprintf("result%d", k)] = v
		if n := sig.Results().At(k).Name(); n != "" && n != "_" {
			b2[n] = v
		}
	}
	if len(vals) > 0 {
		b2["result"] = vals[0]
	}
	ev2 := &evalCtx{cur: st, old: pre, bind: b2, callee: true}
	for _, c := range blk.byKind("ensures") {
		fc.assume(st, fc.evalFormula(c.f, ev2))
	}
	return vals
}

// lvalues of modifies clauses:  x.f   (field of the struct x points to)
//                               x.f[] (contents of the map stored in x.f)
//                               x[]   (contents of map x)
type lvalue struct {
	chKind string    // sent rcvd closed full: channel ghost state
	ch     Val
	addr  *Addr      // field location
	mref  string     // map reference
	mtype *types.Map // map contents
}

func (fc *fnCtx) evalLvalue(text string, ev *evalCtx) lvalue {
	for _, k := range []string{"sent", "rcvd", "closed", "full"} {
		if strings.HasPrefix(text, k+"(") && strings.HasSuffix(text, ")") {
			ch := fc.evalHole(text[len(k)+1:len(text)-1], ev)
			return lvalue{chKind: k, ch: ch}
		}
	}
	isMap := strings.HasSuffix(text, "[]")
	src := strings.TrimSuffix(text, "[]")
	if isMap {
		v := fc.evalHole(src, ev)
		mt, ok := v.Ty.Underlying().(*types.Map)
		if !ok {
			panic(unsupported{"modifies " + text + ": not a map"})
		}
		return lvalue{mref: v.T, mtype: mt}
	}
	e, err := parser.ParseExpr(strings.ReplaceAll(src, "$", "DOLLAR__"))
	if err != nil {
		panic(unsupported{"modifies " + text + ": " + err.Error()})
	}
	sel, ok := e.(*ast.SelectorExpr)
	if !ok {
		panic(unsupported{"modifies " + text + ": expected x.f or x.f[]"})
	}
	base := fc.evalExpr(sel.X, ev, src)
	pt, ok := base.Ty.Underlying().(*types.Pointer)
	if !ok {
		panic(unsupported{"modifies " + text + ": base is not a pointer"})
	}
	stt := pt.Elem().Underlying().(*types.Struct)
	for i := 0; i < stt.NumFields(); i++ {
		if stt.Field(i).Name() == sel.Sel.Name {
			return lvalue{addr: fc.fieldAddr(fc.pointerAddr(base, pt.Elem()), i)}
		}
	}
	panic(unsupported{"modifies " + text + ": no such field"})
}

func (fc *fnCtx) havocLvalue(st *state, text string, ev *evalCtx) {
	lv := fc.evalLvalue(text, ev)
	if lv.chKind != "" {
		switch lv.chKind {
		case "closed", "full":
			hv := "ch!" + lv.chKind
			fc.setHeap(st, hv, "(Array V Bool)", fmt.Sprintf("(store %s %s %s)", fc.heapVar(st, hv, "(Array V Bool)"), lv.ch.T, fc.fresh("hvb", "Bool")))
		default:
			ct, ok := lv.ch.Ty.Underlying().(*types.Chan)
			if !ok {
				panic(unsupported{"modifies " + text + ": not a channel"})
			}
			es := fc.sortOf(ct.Elem())
			hv, hs := fc.seqVar(lv.chKind, es)
			nv := fc.fresh("hvs", "(Slice "+es+")")
			fc.assume(st, fmt.Sprintf("(>= (slen %s) 0)", nv))
			fc.setHeap(st, hv, hs, fmt.Sprintf("(store %s %s %s)", fc.heapVar(st, hv, hs), lv.ch.T, nv))
		}
		return
	}
	if lv.mtype != nil {
		dom, val, ds, vs := fc.mapVars(lv.mtype)
		ks, es := fc.sortOf(lv.mtype.Key()), fc.sortOf(lv.mtype.Elem())
		fc.setHeap(st, dom, ds, fmt.Sprintf("(store %s %s %s)", fc.heapVar(st, dom, ds), lv.mref, fc.fresh("hvd", "(Array "+ks+" Bool)")))
		fc.setHeap(st, val, vs, fmt.Sprintf("(store %s %s %s)", fc.heapVar(st, val, vs), lv.mref, fc.fresh("hvv", "(Array "+ks+" "+es+")")))
		return
	}
	a := lv.addr
	if a.kind != aHeap {
		panic(unsupported{"modifies " + text + ": not a heap location"})
	}
	fc.store(st, a, fc.freshVal(st, "hv", a.typ))
}

// ---- builtins ---------------------------------------------------------------------

func (fc *fnCtx) execBuiltin(st *state, ins ssa.Instruction, c *ssa.CallCommon, b *ssa.Builtin, res ssa.Value) []Val {
	switch b.Name() {
	case "ssa:deferstack", "print", "println", "recover":
		return []Val{{T: "vnil", S: "V"}}
	case "len":
		x := fc.val(c.Args[0])
		switch t := c.Args[0].Type().Underlying().(type) {
		case *types.Slice:
			return []Val{{T: fmt.Sprintf("(slen %s)", x.T), S: "Int", Ty: types.Typ[types.Int]}}
		case *types.Basic:
			return []Val{{T: fmt.Sprintf("(strlen %s)", x.T), S: "Int", Ty: types.Typ[types.Int]}}
		case *types.Map:
			if fmt_, ok := st.frozen[x.T]; ok {
				fc.thaw(st, x, fmt_)
			}
			dom, _, ds, _ := fc.mapVars(t)
			d := fmt.Sprintf("(select %s %s)", fc.heapVar(st, dom, ds), x.T)
			n := fc.fresh("maplen", "Int")
			ks := fc.sortOf(t.Key())
			fc.assume(st, fmt.Sprintf("(and (>= %s 0) (= (= %s 0) (or (= %s vnil) (forall ((q!k %s)) (not (select %s q!k))))))", n, n, x.T, ks, d))
			return []Val{{T: n, S: "Int", Ty: types.Typ[types.Int]}}
		case *types.Chan:
			n := fc.fresh("chanlen", "Int")
			fc.assume(st, fmt.Sprintf("(>= %s 0)", n))
			return []Val{{T: n, S: "Int", Ty: types.Typ[types.Int]}}
		}
		unsup("len of %s", c.Args[0].Type())
	case "cap":
		n := fc.fresh("cap", "Int")
		fc.assume(st, fmt.Sprintf("(>= %s 0)", n))
		return []Val{{T: n, S: "Int", Ty: types.Typ[types.Int]}}
	case "append":
		s := fc.val(c.Args[0])
		t := fc.val(c.Args[1])
		target := ""
		if u, ok := c.Args[0].(*ssa.UnOp); ok && u.Op == token.MUL {
			if a, ok := u.X.(*ssa.Alloc); ok {
				target = fc.contractName(a.Comment)
			}
		}
		bind := map[string]Val{"$0": s, "$1": t}
		single := false
		var elem Val
		if sl, ok := c.Args[1].(*ssa.Slice); ok {
			if pt, ok := sl.X.Type().Underlying().(*types.Pointer); ok {
				if arr, ok := pt.Elem().Underlying().(*types.Array); ok && arr.Len() == 1 {
					single = true
					es := fc.sortOf(arr.Elem())
					elem = Val{T: fc.def(es, fmt.Sprintf("(select (sarr %s) 0)", t.T)), S: es, Ty: arr.Elem()}
					bind["$elem"] = elem
				}
			}
		}
		if target != "" {
			fc.runAnchors(st, "append", func(arg string) bool { return arg == target }, fc.ordOf("call:append", ins.Pos()), bind, false, "true", ins.Pos())
		}
		if u, ok := c.Args[0].(*ssa.UnOp); ok && u.Op == token.MUL {
			if a, ok := u.X.(*ssa.Alloc); ok {
				if src, shared := fc.aliasCell[a]; shared {
					fc.aliasOf[s.T] = src
				}
			}
		}
		if src, shared := fc.aliasOf[s.T]; shared {
			off := "0"
			if o, ok := fc.aliasOff[s.T]; ok {
				off = o
			}
			fc.assert(st, "frame", fmt.Sprintf("frame.append-into-a-shared-backing-array#%d", fc.site("frame.alias")), fmt.Sprintf("(>= (+ %s (slen %s)) (slen %s))", off, s.T, src.T),
				"append to a reslice x[:k] overwrites x's backing array while k < len(x): a write to memory this function does not own", ins.Pos())
		} else if why := foreignSlice(c.Args[0], map[ssa.Value]bool{}); why != "" {
			// append to a slice this function did not create: with spare capacity it writes into a backing
			// array that other holders of the slice share (slices are values in this model, so the write
			// itself is not represented: it is excluded by this obligation instead)
			fc.assert(st, "frame", fmt.Sprintf("frame.append-to-a-slice-not-created-here#%d", fc.site("frame.foreign")), "false",
				"append to a slice obtained from "+why+": if it has spare capacity the element is written into a backing array shared with its other holders", ins.Pos())
		}
		var r Val
		if single {
			r = Val{T: fc.def(s.S, appendT(s.S, s.T, elem.T)), S: s.S, Ty: c.Args[0].Type()}
		} else {
			r = fc.freshVal(st, "app", c.Args[0].Type())
			fc.assume(st, fmt.Sprintf("(= (slen %s) (+ (slen %s) (slen %s)))", r.T, s.T, t.T))
			fc.assume(st, fmt.Sprintf("(forall ((q!i Int)) (=> (and (<= 0 q!i) (< q!i (slen %s))) (= (select (sarr %s) q!i) (select (sarr %s) q!i))))", s.T, r.T, s.T))
			fc.assume(st, fmt.Sprintf("(forall ((q!i Int)) (=> (and (<= 0 q!i) (< q!i (slen %s))) (= (select (sarr %s) (+ (slen %s) q!i)) (select (sarr %s) q!i))))", t.T, r.T, s.T, t.T))
			fc.assume(st, fmt.Sprintf("(forall ((q!i Int)) (! (=> (and (<= (slen %s) q!i) (< q!i (slen %s))) (= (select (sarr %s) q!i) (select (sarr %s) (- q!i (slen %s))))) :pattern ((select (sarr %s) q!i))))", s.T, r.T, r.T, t.T, s.T, r.T))
		}
		if src, shared := fc.aliasOf[s.T]; shared {
			fc.aliasOf[r.T] = src // the result may still live in the shared array
		}
		if target != "" {
			bind["$result"] = r
			fc.runAnchors(st, "append", func(arg string) bool { return arg == target }, fc.ordOf("call:append", ins.Pos()), bind, true, "true", ins.Pos())
		}
		return []Val{r}
	case "copy":
		// copy(dst, src) where dst is the current value of a variable: rebinding of that variable
		target := fc.rebindTarget(c.Args[0])
		if target == nil {
			unsup("copy into a slice that is not the value of a variable (slice aliasing is not modelled)")
		}
		dst, src := fc.val(c.Args[0]), fc.val(c.Args[1])
		r := fc.freshVal(st, "cpy", c.Args[0].Type())
		n := fc.def("Int", fmt.Sprintf("(ite (< (slen %s) (slen %s)) (slen %s) (slen %s))", dst.T, src.T, dst.T, src.T))
		fc.assume(st, fmt.Sprintf("(= (slen %s) (slen %s))", r.T, dst.T))
		fc.assume(st, fmt.Sprintf("(forall ((q!i Int)) (=> (and (<= 0 q!i) (< q!i %s)) (= (select (sarr %s) q!i) (select (sarr %s) q!i))))", n, r.T, src.T))
		fc.assume(st, fmt.Sprintf("(forall ((q!i Int)) (=> (and (<= %s q!i) (< q!i (slen %s))) (= (select (sarr %s) q!i) (select (sarr %s) q!i))))", n, dst.T, r.T, dst.T))
		fc.store(st, target, r)
		return []Val{{T: n, S: "Int"}}
	case "delete":
		m, k := fc.val(c.Args[0]), fc.val(c.Args[1])
		if _, ok := st.frozen[m.T]; ok {
			unsup("delete from a frozen (immutable) map")
		}
		mt := c.Args[0].Type().Underlying().(*types.Map)
		// delete on a nil map is a no-op
		dom, _, ds, _ := fc.mapVars(mt)
		d := fc.heapVar(st, dom, ds)
		fc.setHeap(st, dom, ds, fmt.Sprintf("(ite (= %s vnil) %s (store %s %s (store (select %s %s) %s false)))", m.T, d, d, m.T, d, m.T, k.T))
		return nil
	case "close":
		ch := fc.val(c.Args[0])
		ch.Ty = c.Args[0].Type()
		bind := map[string]Val{"$ch": ch, "$0": ch}
		fc.anchorB(st, "close", ins, bind, ch, false, "true")
		cl := fc.heapVar(st, "ch!closed", "(Array V Bool)")
		fc.safety(st, "close-nil-channel", fmt.Sprintf("(not (= %s vnil))", ch.T), ins.Pos())
		fc.safety(st, "close-closed-channel", fmt.Sprintf("(not (select %s %s))", cl, ch.T), ins.Pos())
		fc.setHeap(st, "ch!closed", "(Array V Bool)", fmt.Sprintf("(store %s %s true)", cl, ch.T))
		fc.anchorB(st, "close", ins, bind, ch, true, "true")
		return nil
	}
	unsup("builtin %s", b.Name())
	return nil
}

// rebindTarget: the variable whose current value v is (through a load, possibly boxed).
func (fc *fnCtx) rebindTarget(v ssa.Value) *Addr {
	for {
		switch x := v.(type) {
		case *ssa.MakeInterface:
			v = x.X
			continue
		case *ssa.UnOp:
			if x.Op == token.MUL {
				if a, ok := x.X.(*ssa.Alloc); ok {
					return fc.asAddr(a)
				}
			}
		}
		return nil
	}
}

// sortSlice models sort.Slice(x, less) (assumed library contract, hard-wired):
// the variable holding x is rebound to a permutation of its old value.
func (fc *fnCtx) sortSlice(st *state, c *ssa.CallCommon, ins ssa.Instruction) {
	target := fc.rebindTarget(c.Args[0])
	if target == nil {
		unsup("sort.Slice on a slice that is not the value of a variable")
	}
	old := fc.load(st, target)
	r := fc.freshVal(st, "sorted", target.typ)
	fc.nfresh++
	pi, pinv := fmt.Sprintf("perm!%d", fc.nfresh), fmt.Sprintf("perminv!%d", fc.nfresh)
	fc.decls = append(fc.decls, fmt.Sprintf("(declare-fun %s (Int) Int)", pi), fmt.Sprintf("(declare-fun %s (Int) Int)", pinv))
	fc.assume(st, fmt.Sprintf("(= (slen %s) (slen %s))", r.T, old.T))
	fc.assume(st, fmt.Sprintf("(forall ((q!i Int)) (! (=> (and (<= 0 q!i) (< q!i (slen %s))) (and (<= 0 (%s q!i)) (< (%s q!i) (slen %s)) (= (select (sarr %s) q!i) (select (sarr %s) (%s q!i))) (= (%s (%s q!i)) q!i))) :pattern ((select (sarr %s) q!i))))",
		r.T, pi, pi, r.T, r.T, old.T, pi, pinv, pi, r.T))
	fc.assume(st, fmt.Sprintf("(forall ((q!j Int)) (! (=> (and (<= 0 q!j) (< q!j (slen %s))) (and (<= 0 (%s q!j)) (< (%s q!j) (slen %s)) (= (select (sarr %s) (%s q!j)) (select (sarr %s) q!j)) (= (%s (%s q!j)) q!j))) :pattern ((select (sarr %s) q!j))))",
		r.T, pinv, pinv, r.T, r.T, pinv, old.T, pi, pinv, old.T))
	fc.store(st, target, r)
	fc.trusted["sort.Slice: the slice variable is rebound to a permutation of its old value"] = true
	fc.sortedByLess(st, c, ins, r)
}

// sortedByLess: when the less function is a closure of /repo under contract, sort.Slice is
// further assumed to leave the slice sorted by it: for all positions p < q, less(q, p) is false,
// where "less(q, p) is false" is the closure's own postcondition with result := false (the
// closure is verified against that postcondition).  The closure's preconditions become an
// obligation of the call, for all pairs of positions.
func (fc *fnCtx) sortedByLess(st *state, c *ssa.CallCommon, ins ssa.Instruction, r Val) {
	lv, ok := fc.env[c.Args[1]].(Val)
	if !ok {
		return
	}
	info := fc.closures[lv.T]
	if info == nil {
		return
	}
	blk := fc.e.db.funcs[canonName(info.fn)]
	if blk == nil || blk.kind != "func" || len(info.fn.Params) != 2 || len(blk.modifies) > 0 {
		return
	}
	blk.used = true
	for _, th := range blk.theories {
		fc.theories[th] = true
	}
	intT := types.Typ[types.Int]
	mk := func(iT, jT string) map[string]Val {
		bind := map[string]Val{
			info.fn.Params[0].Name(): {T: iT, S: "Int", Ty: intT},
			info.fn.Params[1].Name(): {T: jT, S: "Int", Ty: intT},
			"result":                  {T: "false", S: "Bool"},
			"result0":                 {T: "false", S: "Bool"},
		}
		// the contract may still use the names the parameters had when it was written
		for old, cur := range fc.e.paramRenames(info.fn) {
			if b, ok := bind[cur]; ok {
				if _, clash := bind[old]; !clash {
					bind[old] = b
				}
			}
		}
		for k, fv := range info.fn.FreeVars {
			if k >= len(info.bindings) {
				continue
			}
			pt, isPtr := fv.Type().(*types.Pointer)
			if !isPtr {
				continue
			}
			switch b := info.bindings[k].(type) {
			case *Addr:
				v := fc.load(st, b)
				v.Ty = pt.Elem()
				bind[fv.Name()] = v
				bind[fmt.Sprintf("$free%d", k)] = v
			case Val:
				v := fc.load(st, fc.pointerAddr(b, pt.Elem()))
				v.Ty = pt.Elem()
				bind[fv.Name()] = v
				bind[fmt.Sprintf("$free%d", k)] = v
			}
		}
		return bind
	}
	quant := func(clauses []*clause, iT, jT string) (out []string, okAll bool) {
		okAll = true
		n0 := len(fc.assumes)
		fc.noDef = true
		defer func() {
			fc.noDef = false
			fc.assumes = fc.assumes[:n0] // facts produced while evaluating under the quantifier are dropped
			if rec := recover(); rec != nil {
				if _, isU := rec.(unsupported); isU {
					okAll = false
					return
				}
				panic(rec)
			}
		}()
		ev := &evalCtx{cur: st, old: st, bind: mk(iT, jT), preferBind: true}
		for _, cl := range clauses {
			out = append(out, fc.evalFormula(cl.f, ev))
		}
		return out, true
	}
	rng := fmt.Sprintf("(and (<= 0 q!sp) (< q!sp (slen %s)) (<= 0 q!sq) (< q!sq (slen %s)))", r.T, r.T)
	if reqs, ok := quant(blk.byKind("requires"), "q!sp", "q!sq"); ok && len(reqs) > 0 {
		fc.assert(st, "requires", fmt.Sprintf("call.sort.Slice/less-function-requires#%d", fc.site("sortless")),
			fmt.Sprintf("(forall ((q!sp Int) (q!sq Int)) (=> %s (and %s)))", rng, strings.Join(reqs, " ")),
			"the preconditions of the less function hold for every pair of positions sort.Slice may compare", ins.Pos())
	}
	// less(q, p) is false for p < q: the first parameter is the later position
	if ens, ok := quant(blk.byKind("ensures"), "q!sq", "q!sp"); ok && len(ens) > 0 {
		fc.assume(st, fmt.Sprintf("(forall ((q!sp Int) (q!sq Int)) (=> (and (<= 0 q!sp) (< q!sp q!sq) (< q!sq (slen %s))) (and %s)))", r.T, strings.Join(ens, " ")))
		fc.trusted["sort.Slice leaves the slice sorted by its less function (the less function's own contract, instantiated with result = false for every later/earlier pair)"] = true
	}
}

// foreignSlice: does the slice value come from outside the function (parameter, field, element,
// type assertion, call result)?  Returns a description of the origin, or "" when every definition
// reaching v is nil, make, a literal, or an append to such a slice.
func foreignSlice(v ssa.Value, seen map[ssa.Value]bool) string {
	if seen[v] {
		return ""
	}
	seen[v] = true
	switch x := v.(type) {
	case *ssa.Const:
		return ""
	case *ssa.MakeSlice:
		return ""
	case *ssa.Slice:
		if _, ok := x.X.Type().Underlying().(*types.Pointer); ok {
			if _, isAlloc := x.X.(*ssa.Alloc); isAlloc {
				return "" // slice literal / variadic argument array built here
			}
			return "an array this function did not allocate"
		}
		return foreignSlice(x.X, seen)
	case *ssa.Call:
		if b, ok := x.Call.Value.(*ssa.Builtin); ok && b.Name() == "append" {
			return foreignSlice(x.Call.Args[0], seen)
		}
		return "a call result"
	case *ssa.ChangeType:
		return foreignSlice(x.X, seen)
	case *ssa.Convert:
		return foreignSlice(x.X, seen)
	case *ssa.Phi:
		for _, e := range x.Edges {
			if w := foreignSlice(e, seen); w != "" {
				return w
			}
		}
		return ""
	case *ssa.UnOp:
		if x.Op == token.MUL {
			if a, ok := x.X.(*ssa.Alloc); ok {
				// every store into the local variable
				for _, ref := range *a.Referrers() {
					if st, ok := ref.(*ssa.Store); ok && st.Addr == a {
						if w := foreignSlice(st.Val, seen); w != "" {
							return w
						}
					}
				}
				return ""
			}
			if _, ok := x.X.(*ssa.FreeVar); ok {
				return "" // captured local of the enclosing function (checked there)
			}
			return "a field or element"
		}
	case *ssa.Parameter:
		return "a parameter"
	case *ssa.TypeAssert:
		return "a type assertion on a value passed in"
	case *ssa.Extract:
		return "a call result"
	}
	return "an expression outside the tracked forms"
}

// isExternalCallee: the callee is declared outside the packages of /repo.
func (fc *fnCtx) isExternalCallee(c *ssa.CallCommon) bool {
	inRepo := func(p *types.Package) bool {
		return p != nil && strings.HasPrefix(p.Path(), "github.com/boz/kcache")
	}
	if c.IsInvoke() {
		return !inRepo(c.Method.Pkg())
	}
	if f, ok := c.Value.(*ssa.Function); ok {
		if f.Pkg != nil {
			return !inRepo(f.Pkg.Pkg)
		}
		if f.Object() != nil {
			return !inRepo(f.Object().Pkg())
		}
	}
	return false
}
