package main

import (
	"fmt"
	"go/token"
	"go/types"
	"strings"

	"golang.org/x/tools/go/ssa"
)

// execBlock runs the instructions of b on st; returns the edge conditions to
// the successors (nil for blocks that end the function).
func (fc *fnCtx) execBlock(b *ssa.BasicBlock, st *state, edgeIn map[*ssa.BasicBlock]string) []string {
	fc.curBlock = b
	fc.curState = st
	for _, ins := range b.Instrs {
		switch i := ins.(type) {
		case *ssa.DebugRef:
		case *ssa.Alloc:
			fc.execAlloc(st, i)
		case *ssa.Store:
			var sbind map[string]Val
			if tgt := fc.storeTarget(i); tgt != "" {
				if sv, isV := fc.env[i.Val].(Val); isV {
					sbind = map[string]Val{"$val": sv}
				} else if _, isC := i.Val.(*ssa.Const); isC {
					sbind = map[string]Val{"$val": fc.val(i.Val)}
				}
			}
			fc.anchor(st, "store", i, sbind, fc.storeTarget(i), false)
			if a, ok := i.Addr.(*ssa.Alloc); ok {
				if sv, isV := fc.env[i.Val].(Val); isV {
					if src, shared := fc.aliasOf[sv.T]; shared {
						fc.aliasCell[a] = src // this variable may hold a reslice sharing src's backing array
					}
				}
			}
			fc.store(st, fc.asAddr(i.Addr), fc.val(i.Val))
			fc.anchor(st, "store", i, sbind, fc.storeTarget(i), true)
		case *ssa.UnOp:
			fc.execUnOp(st, i)
		case *ssa.BinOp:
			fc.env[i] = fc.binop(st, i)
		case *ssa.FieldAddr:
			base := fc.asAddr(i.X)
			if base.kind == aStruct || base.kind == aPath || base.kind == aHeap {
				fc.safety(st, "nil-deref", fmt.Sprintf("(not (= %s vnil))", base.ref), i.Pos())
			}
			fc.env[i] = fc.fieldAddr(base, i.Field)
		case *ssa.Field:
			x := fc.val(i.X)
			dt := fc.e.sorts.dts[x.S]
			if dt == nil {
				unsup("field of non-datatype value %s", x.S)
			}
			f := dt.fields[i.Field]
			fv := Val{T: fmt.Sprintf("(%s %s)", f.name, x.T), S: f.sort, Ty: f.typ}
			fc.tagFrozenField(st, fv, selKey(selStep{dt: dt, fi: i.Field}))
			fc.env[i] = fv
		case *ssa.IndexAddr:
			fc.execIndexAddr(st, i)
		case *ssa.Index:
			x := fc.val(i.X)
			idx := fc.val(i.Index)
			fc.env[i] = Val{T: fmt.Sprintf("(select %s %s)", x.T, idx.T), S: fc.sortOf(i.Type()), Ty: i.Type()}
		case *ssa.Slice:
			fc.execSlice(st, i)
		case *ssa.Lookup:
			fc.execLookup(st, i)
		case *ssa.MapUpdate:
			fc.execMapUpdate(st, i)
		case *ssa.MakeMap:
			r := fc.allocRef(st, "map", i.Type())
			mt := i.Type().Underlying().(*types.Map)
			dom, _, ds, _ := fc.mapVars(mt)
			ks := fc.sortOf(mt.Key())
			fc.setHeap(st, dom, ds, fmt.Sprintf("(store %s %s ((as const (Array %s Bool)) false))", fc.heapVar(st, dom, ds), r.T, ks))
			fc.env[i] = r
		case *ssa.MakeSlice:
			n := fc.val(i.Len)
			s := fc.sortOf(i.Type())
			z := fc.e.sorts.zeroOfSort(s)
			// zero slice with the requested length
			fc.env[i] = Val{T: fmt.Sprintf("((as mkslice %s) (sarr %s) %s)", s, z, n.T), S: s, Ty: i.Type()}
			fc.safety(st, "makeslice-len", fmt.Sprintf("(>= %s 0)", n.T), i.Pos())
		case *ssa.MakeChan:
			r := fc.allocRef(st, "chan", i.Type())
			fc.assume(st, fmt.Sprintf("(= (chancap %s) %s)", r.T, fc.val(i.Size).T))
			cl := fc.heapVar(st, "ch!closed", "(Array V Bool)")
			fc.setHeap(st, "ch!closed", "(Array V Bool)", fmt.Sprintf("(store %s %s false)", cl, r.T))
			// nothing has been sent on / received from a new channel
			es := fc.sortOf(i.Type().Underlying().(*types.Chan).Elem())
			if es != "BIG" {
				for _, k := range []string{"sent", "rcvd"} {
					hv, hs := fc.seqVar(k, es)
					fc.setHeap(st, hv, hs, fmt.Sprintf("(store %s %s %s)", fc.heapVar(st, hv, hs), r.T, fc.e.sorts.zeroOfSort("(Slice "+es+")")))
				}
			}
			fc.env[i] = r
		case *ssa.MakeClosure:
			r := fc.allocRef(st, "clo", i.Type())
			info := &closureInfo{fn: i.Fn.(*ssa.Function)}
			for _, b := range i.Bindings {
				info.bindings = append(info.bindings, fc.env[b])
			}
			fc.closures[r.T] = info
			fc.assume(st, fmt.Sprintf("(= (closureOf %s) %s)", r.T, fc.strConst(canonName(info.fn))))
			fc.env[i] = r
		case *ssa.MakeInterface:
			fc.env[i] = fc.makeInterface(st, fc.val(i.X), i.X.Type(), i.Type())
		case *ssa.ChangeInterface:
			v := fc.val(i.X)
			v.Ty = i.Type()
			fc.env[i] = v
		case *ssa.ChangeType:
			cv := fc.convertVal(st, fc.val(i.X), i.X.Type(), i.Type())
			if mt, ok := fc.isFrozenType(i.Type()); ok {
				fc.freeze(st, cv, mt)
			}
			fc.env[i] = cv
		case *ssa.Convert:
			fc.env[i] = fc.convertVal(st, fc.val(i.X), i.X.Type(), i.Type())
		case *ssa.TypeAssert:
			fc.execTypeAssert(st, i)
		case *ssa.Extract:
			tup, ok := fc.env[i.Tuple].([]Val)
			if !ok {
				unsup("extract from non-tuple %s", i.Tuple)
			}
			fc.env[i] = tup[i.Index]
		case *ssa.Phi:
			var t string
			var srt string
			first := true
			for k, p := range b.Preds {
				c, ok := edgeIn[p]
				if !ok {
					continue
				}
				v := fc.val(i.Edges[k])
				srt = v.S
				if first {
					t = v.T
					first = false
				} else {
					t = fmt.Sprintf("(ite %s %s %s)", c, v.T, t)
				}
			}
			fc.env[i] = Val{T: fc.def(srt, t), S: srt, Ty: i.Type()}
		case *ssa.Range:
			fc.execRange(st, i)
		case *ssa.Next:
			fc.execNext(st, i)
		case *ssa.Select:
			fc.execSelect(st, i)
		case *ssa.Send:
			fc.chanSend(st, fc.val(i.Chan), fc.val(i.X), "true", i.Pos(), i)
		case *ssa.Call:
			fc.execCall(st, i, &i.Call, i)
		case *ssa.Go:
			fc.execGo(st, i)
		case *ssa.Defer:
			st.defers = append(st.defers, i)
		case *ssa.RunDefers:
			for k := len(st.defers) - 1; k >= 0; k-- {
				d := st.defers[k]
				fc.execCall(st, d, &d.Call, nil)
			}
			st.defers = nil
		case *ssa.Return:
			fc.execReturn(st, i)
			return nil
		case *ssa.Panic:
			if fc.blk == nil || !fc.blk.allowPan {
				fc.assert(st, "safety", fmt.Sprintf("safety.explicit-panic-unreachable#%d", fc.site("panic")), "false", "panic(...) must be unreachable", i.Pos())
			}
			return nil
		case *ssa.Jump:
			return []string{st.pc}
		case *ssa.If:
			c := fc.val(i.Cond).T
			c = fc.def("Bool", c)
			return []string{andT(st.pc, c), andT(st.pc, "(not "+c+")")}
		default:
			unsup("instruction %T: %s", ins, ins)
		}
	}
	return nil
}

func andT(a, b string) string {
	if a == "true" {
		return b
	}
	if b == "true" {
		return a
	}
	return fmt.Sprintf("(and %s %s)", a, b)
}

func (fc *fnCtx) safety(st *state, what, goal string, pos token.Pos) {
	if goal == "true" {
		return
	}
	fc.assert(st, "safety", fmt.Sprintf("safety.%s#%d", what, fc.site("safety."+what)), goal, "built-in: "+what, pos)
}

func (fc *fnCtx) storeTarget(i *ssa.Store) string {
	if fa, ok := i.Addr.(*ssa.FieldAddr); ok {
		st := fa.X.Type().Underlying().(*types.Pointer).Elem().Underlying().(*types.Struct)
		return st.Field(fa.Field).Name()
	}
	if a, ok := i.Addr.(*ssa.Alloc); ok {
		return fc.contractName(a.Comment)
	}
	return ""
}

func (fc *fnCtx) execAlloc(st *state, i *ssa.Alloc) {
	elem := i.Type().(*types.Pointer).Elem()
	if !i.Heap {
		fc.env[i] = &Addr{kind: aCell, cell: i, typ: elem}
		s := fc.sortOf(elem)
		if s != "BIG" {
			st.cells[i] = Val{T: fc.e.sorts.zeroOfSort(s), S: s, Ty: elem}
		}
		return
	}
	r := fc.allocRef(st, "new", i.Type())
	fc.env[i] = r
	// zero-initialise
	a := fc.pointerAddr(r, elem)
	fc.zeroInit(st, a)
}

func (fc *fnCtx) zeroInit(st *state, a *Addr) {
	if a.kind == aStruct {
		stt := a.typ.Underlying().(*types.Struct)
		for k := 0; k < stt.NumFields(); k++ {
			fa := fc.fieldAddr(a, k)
			if fa.kind == aPath || fa.kind == aImm {
				continue // big nested struct / immutable field: left unconstrained until assigned
			}
			fc.store(st, fa, Val{T: fc.e.sorts.zeroOfSort(fa.hsort), S: fa.hsort, Ty: fa.typ})
		}
		return
	}
	fc.store(st, a, Val{T: fc.e.sorts.zeroOfSort(a.hsort), S: a.hsort, Ty: a.typ})
}

// allocRef returns a fresh non-nil reference not allocated before.
func (fc *fnCtx) allocRef(st *state, prefix string, t types.Type) Val {
	r := Val{T: fc.fresh(prefix, "V"), S: "V", Ty: t}
	al := fc.heapVar(st, "alloc", "(Array V Bool)")
	fc.assume(st, fmt.Sprintf("(and (not (= %s vnil)) (not (select %s %s)))", r.T, al, r.T))
	fc.setHeap(st, "alloc", "(Array V Bool)", fmt.Sprintf("(store %s %s true)", al, r.T))
	fc.freshRefs[r.T] = true
	return r
}

func (fc *fnCtx) execUnOp(st *state, i *ssa.UnOp) {
	switch i.Op {
	case token.MUL:
		a := fc.asAddr(i.X)
		if a.kind != aCell && a.kind != aElem {
			fc.safety(st, "nil-deref", fmt.Sprintf("(not (= %s vnil))", a.ref), i.Pos())
		}
		v := fc.load(st, a)
		v.Ty = i.Type()
		fc.env[i] = v
	case token.NOT:
		fc.env[i] = Val{T: "(not " + fc.val(i.X).T + ")", S: "Bool", Ty: i.Type()}
	case token.SUB:
		x := fc.val(i.X)
		fc.env[i] = Val{T: "(- " + x.T + ")", S: x.S, Ty: i.Type()}
	case token.ARROW:
		ch := fc.val(i.X)
		v, ok := fc.chanRecv(st, ch, "true", i.Pos(), i, true)
		if i.CommaOk {
			fc.env[i] = []Val{v, ok}
		} else {
			fc.env[i] = v
		}
	default:
		unsup("unary operator %s", i.Op)
	}
}

func (fc *fnCtx) binop(st *state, i *ssa.BinOp) Val {
	x, y := fc.val(i.X), fc.val(i.Y)
	res := func(t, s string) Val { return Val{T: t, S: s, Ty: i.Type()} }
	switch i.Op {
	case token.EQL:
		return res(fmt.Sprintf("(= %s %s)", x.T, y.T), "Bool")
	case token.NEQ:
		return res(fmt.Sprintf("(not (= %s %s))", x.T, y.T), "Bool")
	}
	if x.S == "Str" {
		switch i.Op {
		case token.LSS:
			return res(fmt.Sprintf("(strlt %s %s)", x.T, y.T), "Bool")
		case token.GTR:
			return res(fmt.Sprintf("(strlt %s %s)", y.T, x.T), "Bool")
		case token.LEQ:
			return res(fmt.Sprintf("(not (strlt %s %s))", y.T, x.T), "Bool")
		case token.GEQ:
			return res(fmt.Sprintf("(not (strlt %s %s))", x.T, y.T), "Bool")
		case token.ADD:
			return res(fmt.Sprintf("(strcat %s %s)", x.T, y.T), "Str")
		}
		unsup("string operator %s", i.Op)
	}
	if x.S == "Int" || x.S == "Real" {
		op := map[token.Token]string{token.LSS: "<", token.GTR: ">", token.LEQ: "<=", token.GEQ: ">="}[i.Op]
		if op != "" {
			return res(fmt.Sprintf("(%s %s %s)", op, x.T, y.T), "Bool")
		}
		op = map[token.Token]string{token.ADD: "+", token.SUB: "-", token.MUL: "*"}[i.Op]
		if op != "" {
			return res(fmt.Sprintf("(%s %s %s)", op, x.T, y.T), x.S)
		}
		if (i.Op == token.QUO || i.Op == token.REM) && x.S == "Int" {
			// Go's integer division truncates toward zero
			fc.safety(st, "div-by-zero", fmt.Sprintf("(not (= %s 0))", y.T), i.Pos())
			if i.Op == token.QUO {
				return res(fmt.Sprintf("(godiv %s %s)", x.T, y.T), "Int")
			}
			return res(fmt.Sprintf("(- %s (* %s (godiv %s %s)))", x.T, y.T, x.T, y.T), "Int")
		}
		if i.Op == token.QUO && x.S == "Real" {
			fc.safety(st, "div-by-zero", fmt.Sprintf("(not (= %s 0.0))", y.T), i.Pos())
			return res(fmt.Sprintf("(/ %s %s)", x.T, y.T), "Real")
		}
		unsup("integer operator %s is outside the modelled subset", i.Op)
	}
	unsup("binary operator %s on %s", i.Op, x.S)
	return Val{}
}

func (fc *fnCtx) execIndexAddr(st *state, i *ssa.IndexAddr) {
	idx := fc.val(i.Index)
	switch t := i.X.Type().Underlying().(type) {
	case *types.Slice:
		x := fc.val(i.X)
		fc.safety(st, "index-in-range", fmt.Sprintf("(and (<= 0 %s) (< %s (slen %s)))", idx.T, idx.T, x.T), i.Pos())
		fc.env[i] = &Addr{kind: aElem, slice: x, idx: idx.T, typ: t.Elem(), foreign: foreignSlice(i.X, map[ssa.Value]bool{}), rebind: fc.rebindTarget(i.X)}
	case *types.Pointer:
		arr, ok := t.Elem().Underlying().(*types.Array)
		if !ok {
			unsup("IndexAddr on %s", t)
		}
		base := fc.asAddr(i.X)
		fc.safety(st, "index-in-range", fmt.Sprintf("(and (<= 0 %s) (< %s %d))", idx.T, idx.T, arr.Len()), i.Pos())
		n := *base
		n.sel = append(append([]selStep{}, base.sel...), selStep{index: idx.T, esort: fc.sortOf(arr.Elem())})
		n.typ = arr.Elem()
		fc.env[i] = &n
	default:
		unsup("IndexAddr on %s", i.X.Type())
	}
}

func (fc *fnCtx) execSlice(st *state, i *ssa.Slice) {
	s := fc.sortOf(i.Type())
	switch t := i.X.Type().Underlying().(type) {
	case *types.Pointer:
		arr := t.Elem().Underlying().(*types.Array)
		if i.Low != nil {
			if c, ok := i.Low.(*ssa.Const); !ok || c.Int64() != 0 {
				unsup("slicing an array with a non-zero low bound")
			}
		}
		a := fc.load(st, fc.asAddr(i.X))
		n := fmt.Sprint(arr.Len())
		if i.High != nil {
			hi := fc.val(i.High)
			fc.safety(st, "slice-bounds", fmt.Sprintf("(and (<= 0 %s) (<= %s %d))", hi.T, hi.T, arr.Len()), i.Pos())
			n = hi.T
		}
		fc.env[i] = Val{T: fmt.Sprintf("((as mkslice %s) %s %s)", s, a.T, n), S: s, Ty: i.Type()}
	case *types.Slice:
		x := fc.val(i.X)
		if i.Low != nil {
			if c, ok := i.Low.(*ssa.Const); !ok || c.Int64() != 0 {
				// x[lo:hi]: a fresh slice value holding x's elements lo..hi-1, sharing x's backing array
				lo := fc.val(i.Low)
				hiT := fmt.Sprintf("(slen %s)", x.T)
				if i.High != nil {
					hiT = fc.val(i.High).T
				}
				fc.safety(st, "slice-bounds", fmt.Sprintf("(and (<= 0 %s) (<= %s %s) (<= %s (slen %s)))", lo.T, lo.T, hiT, hiT, x.T), i.Pos())
				rv := fc.freshVal(st, "resl", i.Type())
				fc.assume(st, fmt.Sprintf("(= (slen %s) (- %s %s))", rv.T, hiT, lo.T))
				fc.assume(st, fmt.Sprintf("(forall ((q!i Int)) (! (=> (and (<= 0 q!i) (< q!i (slen %s))) (= (select (sarr %s) q!i) (select (sarr %s) (+ %s q!i)))) :pattern ((select (sarr %s) q!i))))", rv.T, rv.T, x.T, lo.T, rv.T))
				fc.aliasOf[rv.T] = x
				fc.aliasOff[rv.T] = lo.T
				fc.env[i] = rv
				return
			}
		}
		if i.High == nil {
			fc.env[i] = x
			return
		}
		hi := fc.val(i.High)
		fc.safety(st, "slice-bounds", fmt.Sprintf("(and (<= 0 %s) (<= %s (slen %s)))", hi.T, hi.T, x.T), i.Pos())
		rv := Val{T: fc.def(s, fmt.Sprintf("((as mkslice %s) (sarr %s) %s)", s, x.T, hi.T)), S: s, Ty: i.Type()}
		// the reslice shares its backing array with x (slices are values in this model): remember it,
		// appending to it while it is shorter than x would overwrite memory x's owner can see
		fc.aliasOf[rv.T] = x
		fc.env[i] = rv
	default:
		unsup("slice of %s", i.X.Type())
	}
}

func (fc *fnCtx) mapVars(mt *types.Map) (dom, val, domSort, valSort string) {
	ks, vs := fc.sortOf(mt.Key()), fc.sortOf(mt.Elem())
	if ks == "BIG" || vs == "BIG" {
		unsup("map with big struct key or value")
	}
	key := sortKey(ks) + "!" + sortKey(vs)
	return "|mdom!" + key + "|", "|mval!" + key + "|", "(Array V (Array " + ks + " Bool))", "(Array V (Array " + ks + " " + vs + "))"
}

func (fc *fnCtx) execLookup(st *state, i *ssa.Lookup) {
	mt, ok := i.X.Type().Underlying().(*types.Map)
	if !ok {
		unsup("string indexing")
	}
	m, k := fc.val(i.X), fc.val(i.Index)
	if fmt_, ok := st.frozen[m.T]; ok {
		fc.thaw(st, m, fmt_)
	}
	dom, val, ds, vs := fc.mapVars(mt)
	d := fc.heapVar(st, dom, ds)
	v := fc.heapVar(st, val, vs)
	es := fc.sortOf(mt.Elem())
	found := fc.def("Bool", fmt.Sprintf("(and (not (= %s vnil)) (select (select %s %s) %s))", m.T, d, m.T, k.T))
	value := fmt.Sprintf("(ite %s (select (select %s %s) %s) %s)", found, v, m.T, k.T, fc.e.sorts.zeroOfSort(es))
	vv := Val{T: fc.def(es, value), S: es, Ty: mt.Elem()}
	if i.CommaOk {
		fc.env[i] = []Val{vv, {T: found, S: "Bool"}}
	} else {
		fc.env[i] = vv
	}
}

func (fc *fnCtx) execMapUpdate(st *state, i *ssa.MapUpdate) {
	mt := i.Map.Type().Underlying().(*types.Map)
	m, k, v := fc.val(i.Map), fc.val(i.Key), fc.val(i.Value)
	if _, ok := st.frozen[m.T]; ok {
		unsup("update of a frozen (immutable) map")
	}
	fc.safety(st, "nil-map-write", fmt.Sprintf("(not (= %s vnil))", m.T), i.Pos())
	fc.mapStore(st, mt, m.T, k.T, v.T, true)
}

func (fc *fnCtx) mapStore(st *state, mt *types.Map, m, k, v string, present bool) {
	dom, val, ds, vs := fc.mapVars(mt)
	d := fc.heapVar(st, dom, ds)
	fc.setHeap(st, dom, ds, fmt.Sprintf("(store %s %s (store (select %s %s) %s %v))", d, m, d, m, k, present))
	if present {
		vv := fc.heapVar(st, val, vs)
		fc.setHeap(st, val, vs, fmt.Sprintf("(store %s %s (store (select %s %s) %s %s))", vv, m, vv, m, k, v))
	}
}

func (fc *fnCtx) execRange(st *state, i *ssa.Range) {
	mt, ok := i.X.Type().Underlying().(*types.Map)
	if !ok {
		unsup("range over string")
	}
	m := fc.val(i.X)
	if fmt_, ok := st.frozen[m.T]; ok {
		fc.thaw(st, m, fmt_)
	}
	g := fmt.Sprintf("visited!%d", fc.site("range"))
	ks := fc.sortOf(mt.Key())
	st.ghost[g] = Val{T: fmt.Sprintf("((as const (Array %s Bool)) false)", ks), S: "(Array " + ks + " Bool)"}
	fc.rangeOf[i] = &rangeInfo{m: m, visited: g, mtype: mt}
	fc.runAnchors(st, "range", func(string) bool { return true }, 0, map[string]Val{"$0": m}, false, "true", i.Pos())
}

func (fc *fnCtx) execNext(st *state, i *ssa.Next) {
	r, ok := i.Iter.(*ssa.Range)
	if !ok || i.IsString {
		unsup("next over string")
	}
	ri := fc.rangeOf[r]
	mt := ri.mtype
	dom, val, ds, vs := fc.mapVars(mt)
	d := fmt.Sprintf("(select %s %s)", fc.heapVar(st, dom, ds), ri.m.T)
	vv := fmt.Sprintf("(select %s %s)", fc.heapVar(st, val, vs), ri.m.T)
	vis := st.ghost[ri.visited]
	okv := fc.fresh("nextok", "Bool")
	ks, es := fc.sortOf(mt.Key()), fc.sortOf(mt.Elem())
	k := fc.fresh("nextk", ks)
	fc.assume(st, fmt.Sprintf("(=> %s (and (not (= %s vnil)) (select %s %s) (not (select %s %s))))", okv, ri.m.T, d, k, vis.T, k))
	fc.assume(st, fmt.Sprintf("(=> (not %s) (or (= %s vnil) (forall ((q!k %s)) (=> (select %s q!k) (select %s q!k)))))", okv, ri.m.T, ks, d, vis.T))
	st.ghost[ri.visited] = Val{T: fc.def(vis.S, fmt.Sprintf("(ite %s (store %s %s true) %s)", okv, vis.T, k, vis.T)), S: vis.S}
	fc.env[i] = []Val{{T: okv, S: "Bool"}, {T: k, S: ks, Ty: mt.Key()}, {T: fc.def(es, fmt.Sprintf("(select %s %s)", vv, k)), S: es, Ty: mt.Elem()}}
	fc.lastVisited = ri.visited
}

func (fc *fnCtx) makeInterface(st *state, x Val, from, to types.Type) Val {
	if x.S == "V" {
		ty := fc.tyConst(from)
		fc.assume(st, fmt.Sprintf("(=> (not (= %s vnil)) (= (dyntype %s) %s))", x.T, x.T, ty))
		return Val{T: x.T, S: "V", Ty: to}
	}
	if x.S == "BIG" {
		unsup("boxing a big struct")
	}
	box, unbox := fc.boxFns(from, x.S)
	v := fc.def("V", fmt.Sprintf("(%s %s)", box, x.T))
	fc.assume(st, fmt.Sprintf("(and (= (%s %s) %s) (= (dyntype %s) %s) (not (= %s vnil)))", unbox, v, x.T, v, fc.tyConst(from), v))
	return Val{T: v, S: "V", Ty: to}
}

func (fc *fnCtx) boxFns(t types.Type, s string) (string, string) {
	n := typeName(t)
	box, unbox := "|box!"+n+"|", "|unbox!"+n+"|"
	if _, ok := fc.boxes[box]; !ok {
		fc.boxes[box] = s
		if !fc.e.theoryDeclares(fc.theories, box) {
			fc.decls = append(fc.decls, fmt.Sprintf("(declare-fun %s (%s) V)", box, s), fmt.Sprintf("(declare-fun %s (V) %s)", unbox, s))
		}
	}
	return box, unbox
}

func (fc *fnCtx) convertVal(st *state, x Val, from, to types.Type) Val {
	ts := fc.sortOf(to)
	if ts == x.S {
		if d1, ok := fc.e.sorts.dts[x.S]; ok && d1 != nil {
			_ = d1
		}
		return Val{T: x.T, S: ts, Ty: to}
	}
	d1, d2 := fc.e.sorts.dts[x.S], fc.e.sorts.dts[ts]
	if d1 != nil && d2 != nil && len(d1.fields) == len(d2.fields) {
		parts := []string{d2.ctor}
		for k := range d1.fields {
			parts = append(parts, fmt.Sprintf("(%s %s)", d1.fields[k].name, x.T))
		}
		if len(d1.fields) == 0 {
			return Val{T: d2.ctor, S: ts, Ty: to}
		}
		return Val{T: "(" + strings.Join(parts, " ") + ")", S: ts, Ty: to}
	}
	switch {
	case x.S == "Int" && ts == "Real":
		return Val{T: "(to_real " + x.T + ")", S: ts, Ty: to}
	case x.S == "Real" && ts == "Int":
		// Go truncates toward zero; to_int is floor: equal for non-negative values (stated in the evidence)
		return Val{T: "(to_int " + x.T + ")", S: ts, Ty: to}
	}
	unsup("conversion %s -> %s", typeName(from), typeName(to))
	return Val{}
}

func (fc *fnCtx) implFn(it types.Type) string {
	n := "|impl!" + typeName(it) + "|"
	if _, ok := fc.ifaces[n]; !ok {
		fc.ifaces[n] = it.Underlying().(*types.Interface)
		if !fc.e.theoryDeclares(fc.theories, n) {
			fc.decls = append(fc.decls, fmt.Sprintf("(declare-fun %s (GoType) Bool)", n))
		}
	}
	return n
}

func (fc *fnCtx) execTypeAssert(st *state, i *ssa.TypeAssert) {
	x := fc.val(i.X)
	var ok, value string
	rs := fc.sortOf(i.AssertedType)
	if types.IsInterface(i.AssertedType) {
		ok = fc.def("Bool", fmt.Sprintf("(and (not (= %s vnil)) (%s (dyntype %s)))", x.T, fc.implFn(i.AssertedType), x.T))
		value = fmt.Sprintf("(ite %s %s vnil)", ok, x.T)
	} else {
		ty := fc.tyConst(i.AssertedType)
		ok = fc.def("Bool", fmt.Sprintf("(and (not (= %s vnil)) (= (dyntype %s) %s))", x.T, x.T, ty))
		if rs == "V" {
			value = fmt.Sprintf("(ite %s %s vnil)", ok, x.T)
		} else {
			box, unbox := fc.boxFns(i.AssertedType, rs)
			fc.assume(st, fmt.Sprintf("(=> %s (= (%s (%s %s)) %s))", ok, box, unbox, x.T, x.T))
			value = fmt.Sprintf("(ite %s (%s %s) %s)", ok, unbox, x.T, fc.e.sorts.zeroOfSort(rs))
		}
	}
	v := Val{T: fc.def(rs, value), S: rs, Ty: i.AssertedType}
	if mt, isF := fc.isFrozenType(i.AssertedType); isF {
		fc.thaw(st, v, mt)
	}
	if i.CommaOk {
		fc.env[i] = []Val{v, {T: ok, S: "Bool"}}
	} else {
		fc.safety(st, "type-assertion", ok, i.Pos())
		fc.env[i] = v
	}
}
