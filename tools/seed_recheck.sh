#!/bin/bash
# Must-fail corpus: every seeded change under /verif/seeded is applied to a SCRATCH COPY of /repo
# (never to /repo itself), the checks named in its meta.json ("property" plus optional "also_checks")
# are run against the copy, and at least one must report a VIOLATION.  Updates meta.json["detected_by"].
# usage: seed_recheck.sh [name-pattern]
cd /verif
pat=${1:-.}
fail=0
for d in seeded/*/; do
  n=$(basename $d)
  echo "$n" | grep -q "$pat" || continue
  scratch=$(mktemp -d /tmp/kvcseed.XXXXXX)
  rsync -a --exclude .git /repo/ $scratch/
  if ! (cd $scratch && patch -p1 -s < /verif/$d/patch.diff); then echo "$n: PATCH DOES NOT APPLY"; rm -rf $scratch; fail=1; continue; fi
  props=$(python3 -c "import json;m=json.load(open('$d/meta.json'));print(' '.join([m['property']]+m.get('also_checks',[])))")
  det=""
  for p in $props; do
    out=$(./bin/kvc check -repo $scratch -prop $p -no-evidence -no-replay 2>&1); rc=$?
    nv=$(echo "$out" | grep -c "^VIOLATION")
    if [ $rc -eq 1 ] && [ $nv -gt 0 ]; then
      first=$(echo "$out" | grep "^VIOLATION" | head -1 | sed 's#.*replay=/verif/replays/##; s#\.txt.*##')
      det="$det $p:$first"
    fi
  done
  rm -rf $scratch
  python3 - "$d" "$det" <<'PY'
import json,sys
d,det=sys.argv[1],sys.argv[2].split()
m=json.load(open(d+'/meta.json')); m['detected_by']=det; json.dump(m,open(d+'/meta.json','w'),indent=1)
PY
  if [ -z "$det" ]; then echo "MISSED  $n (checks: $props)"; fail=1; else echo "caught  $n ->$det" | cut -c1-200; fi
done
exit $fail
