#!/bin/bash
# Regenerates /verif/theory/locals.snapshot from /repo's COMMITTED tree state (run after every change to /repo's
# sources or contracts): the ordered local / captured variables of every function under contract, used only as a
# hint to recognise renamed variables (see rebind.go); never needed for a verdict on the unchanged tree.
cd /verif && ./bin/kvc snapshot-locals > theory/locals.snapshot && wc -l theory/locals.snapshot
