#!/usr/bin/env python3
"""Writes /repo/join/zz_contracts_verif.go: one contract template for the eight generated joins
(function name, source package, destination package), plus the hand-written wrappers of join.go."""
JOINS = [
 ('ServicePods', 'service', 'pod'), ('RCPods', 'replicationcontroller', 'pod'), ('RSPods', 'replicaset', 'pod'),
 ('DeploymentPods', 'deployment', 'pod'), ('DaemonSetPods', 'daemonset', 'pod'), ('StatefulSetPods', 'statefulset', 'pod'),
 ('JobPods', 'job', 'pod'), ('IngressServices', 'ingress', 'service'),
]
FILTERFN = {'ServicePods': 'types/service.PodsFilter', 'RCPods': 'types/replicationcontroller.PodsFilter', 'RSPods': 'types/replicaset.PodsFilter',
 'DeploymentPods': 'types/deployment.PodsFilter', 'DaemonSetPods': 'types/daemonset.PodsFilter', 'StatefulSetPods': 'types/statefulset.PodsFilter',
 'JobPods': 'types/job.PodsFilter', 'IngressServices': 'types/ingress.ServicesFilter'}
HEAD = '''//go:build verif

// Contracts for the verification machinery in /verif (comment only).
// Written by /verif/tools/gen_join_contracts.py: one template for the eight generated joins.
package join

/*@ theory joins
;; theory wiring lists
@*/
'''
IFACES = '''
/*@ iface types/@pkg@.CacheController.Cache
  ensures (not (= result vnil))
@*/
/*@ iface types/@pkg@.CacheReader.List
@*/
/*@ iface types/@pkg@.Publisher.CloneForFilter
  ensures (=> (= result1 vnil) (not (= result0 vnil)))
@*/
/*@ iface types/@pkg@.FilterController.Refilter
  requires [filter-nonnil] (not (= $0 vnil))
@*/
/*@ iface types/@pkg@.Controller.Done
  ensures (not (= result vnil))
@*/
/*@ iface types/@pkg@.Controller.Close
@*/
/*@ iface types/@pkg@.HandlerBuilder.OnInitialize
  ensures (= result $recv)
@*/
/*@ iface types/@pkg@.HandlerBuilder.OnCreate
  ensures (= result $recv)
@*/
/*@ iface types/@pkg@.HandlerBuilder.OnUpdate
  ensures (= result $recv)
@*/
/*@ iface types/@pkg@.HandlerBuilder.OnDelete
  ensures (= result $recv)
@*/
/*@ iface types/@pkg@.HandlerBuilder.Create
  ensures (not (= result vnil))
@*/
'''
TEMPLATE = r'''
/*@ func join.@F@With
  props C09 C20 C11 C08
  theory joins
  requires (and (not (= {srcController} vnil)) (not (= {dstController} vnil)) (not (= {filterFn} vnil)))
  ghost initSet : Bool := false
  ghost createSet : Bool := false
  ghost updateSet : Bool := false
  ghost deleteSet : Bool := false
  ghost linked : Bool := false
  at call(CloneForFilter) assert [destination-is-a-for-filter-clone-of-the-given-publisher] (= $recv {dstController})
  at call(OnInitialize) assert [initialize-refilters] (= (closureOf $0) "join.@F@With$2")
  at call(OnInitialize) set initSet := true
  at call(OnCreate) assert [create-refilters-from-the-source-cache] (= (closureOf $0) "join.@F@With$1")
  at call(OnCreate) set createSet := true
  at call(OnUpdate) assert [update-refilters-from-the-source-cache] (= (closureOf $0) "join.@F@With$1")
  at call(OnUpdate) set updateSet := true
  at call(OnDelete) assert [delete-refilters-from-the-source-cache] (= (closureOf $0) "join.@F@With$1")
  at call(OnDelete) set deleteSet := true
  at call(Create) assert [all-four-callbacks-set] (and initSet createSet updateSet deleteSet)
  at call(NewMonitor) assert [monitors-the-source-controller-with-that-handler] (= $0 {srcController})
  at call(Close) assert [closes-only-the-clone-it-created] (= $recv {dst})
  at go(@F@With$3) set linked := true
  at call(Refilter) assert [opt:the-join-is-refiltered-only-by-the-monitor-callbacks-never-before-the-source-is-synced] false
  at call(@F@With$1) assert [opt:the-source-cache-is-read-only-from-monitor-callbacks-never-before-the-source-is-synced] false
  at call(dyncall) assert [opt:the-source-cache-is-read-only-from-monitor-callbacks-never-before-the-source-is-synced] false
  at return assert [success-returns-the-clone-with-its-monitor-tied-to-it] (=> (= result1 vnil) (and (= result0 {dst}) linked (not (= result0 vnil))))
  at return assert [failure-returns-nothing] (=> (not (= result1 vnil)) (= result0 vnil))
  ensures (=> (= result1 vnil) (not (= result0 vnil)))
@*/
/*@ func join.@F@With$1
  props C09 C20
  theory joins
  requires (and (not (= {srcController} vnil)) (not (= {dst} vnil)) (not (= {filterFn} vnil)) (not (= {log} vnil)))
  ghost lastObjs : (Slice V) := seq-empty
  ghost listOK : Bool := false
  ghost lastFilter : V := vnil
  at call(Cache) assert [reads-the-source-cache] (= $recv {srcController})
  at call(List).after set lastObjs := $result0
  at call(List).after set listOK := (= $result1 vnil)
  at call(dyncall) assert [selection-filter-of-the-current-source-content] (and (= $fn {filterFn}) (= $0 lastObjs) listOK)
  at call(dyncall).after assume [the-selection-function-returns-a-filter] (not (= $result vnil))
  at call(dyncall).after set lastFilter := $result
  at call(Refilter) assert [refilters-its-own-clone-with-that-filter] (and (= $recv {dst}) (= $0 lastFilter) listOK)
  ghost refiltered : Bool := false
  at call(Refilter) set refiltered := true
  ghost listed : Bool := false
  at call(List) set listed := true
  exit [always-lists-the-source-and-refilters-unless-the-listing-failed] (and listed (or refiltered (not listOK)))
  at go() assert [opt:callbacks-refilter-serially-on-the-monitor-goroutine] false
@*/
/*@ func join.@F@With$2
  props C09 C20 C08
  theory joins
  requires (and (not (= {dst} vnil)) (not (= {filterFn} vnil)))
  ghost lastFilter : V := vnil
  at call(dyncall) assert [selection-filter-of-the-initial-source-content] (and (= $fn {filterFn}) (= $0 {objs}))
  at call(dyncall).after assume [the-selection-function-returns-a-filter] (not (= $result vnil))
  at call(dyncall).after set lastFilter := $result
  at call(Refilter) assert [refilters-its-own-clone-with-that-filter] (and (= $recv {dst}) (= $0 lastFilter))
  ghost refiltered : Bool := false
  at call(Refilter) set refiltered := true
  exit [always-refilters-so-the-join-becomes-ready-even-for-an-empty-source] refiltered
  at go() assert [opt:callbacks-refilter-serially-on-the-monitor-goroutine] false
@*/
/*@ func join.@F@With$3
  props C09 C11 C12 C20
  theory joins
  requires (and (not (= {dst} vnil)) (not (= {monitor} vnil)))
  ghost doneSeen : Bool := false
  at recv(Done) set doneSeen := true
  at call(Done) assert [waits-for-its-own-clone] (= $recv {dst})
  at call(Close) assert [closes-its-own-monitor-once-the-clone-is-done] (and doneSeen (= $recv {monitor}))
@*/
/*@ func join.@F@
  props C09 C20
  requires (and (not (= {src} vnil)) (not (= {dst} vnil)))
  at call(@F@With) assert [the-selection-rule-of-this-join] (and (= $1 {src}) (= $2 {dst}) (= $3 |fn!@FILTERFN@|))
  ensures (=> (= result1 vnil) (not (= result0 vnil)))
@*/
'''
TAIL = r'''
/*@ iface kcache.Monitor.Close
@*/

/*@ func join.IngressPods
  props C09 C11 C12
  theory joins
  requires (and (not (= {srcbase} vnil)) (not (= {svcbase} vnil)) (not (= {dstbase} vnil)))
  ghost linked : Bool := false
  at call(IngressServices) assert [services-selected-by-the-ingresses] (and (= $1 {srcbase}) (= $2 {svcbase}))
  at call(ServicePods) assert [pods-selected-by-those-services] (and (= $1 {svcs}) (= $2 {dstbase}))
  at call(Close) assert [closes-only-the-intermediate-join-it-created] (= $recv {svcs})
  at go(IngressPods$1) set linked := true
  at return assert [the-intermediate-join-is-tied-to-the-result] (=> (= result1 vnil) (and (= result0 {pods}) linked))
@*/
/*@ func join.IngressPods$1
  props C09 C11 C12
  theory joins
  requires (and (not (= {pods} vnil)) (not (= {svcs} vnil)))
  ghost doneSeen : Bool := false
  at recv(Done) set doneSeen := true
  at call(Done) assert [waits-for-the-result] (= $recv {pods})
  at call(Close) assert [closes-the-intermediate-join-once-the-result-is-done] (and doneSeen (= $recv {svcs}))
@*/
'''
out = HEAD
pkgs = sorted({j[1] for j in JOINS} | {j[2] for j in JOINS})
for p in pkgs:
    out += IFACES.replace('@pkg@', p)
for f, src, dst in JOINS:
    out += TEMPLATE.replace('@F@', f).replace('@FILTERFN@', FILTERFN[f])
out += TAIL
open('/repo/join/zz_contracts_verif.go', 'w').write(out)
print('written')
