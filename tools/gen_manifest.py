#!/usr/bin/env python3
"""Regenerates /verif/MANIFEST.json from the per-property claim table below."""
import json, subprocess
TECH = "contract-based deductive verification of the real code (own VC generator over go/ssa; obligations discharged by z3 5.1 / z3 4.8 / cvc5)"
C = {
 "C01": ("Whole-view postconditions of the cache mutation functions (reference case table, frame, never-regress, relist exactness for keys listed once, missing-from-list => absent, all cached objects accepted), loop invariants of doSync, request loop _cache.run, panic sweep: all discharged by SMT on the SSA of the working tree, for all inputs.",
         "Assumes Accept is a pure function of the object (proved for library filters, C18), the strconv.Atoi contract, immutability of cached objects; duplicate keys in one list get only the weak clauses; 'wedges' only as straight-line handlers that answer exactly once."),
 "C02": ("Ghost mirror + per-key event counter in doSync/doUpdate: every emitted event is well-formed for the replayed content, replay yields the new content, exactly one event per changed key (listed once) and none otherwise; controller.run / filterSubscription.run publish exactly the events of the mutation of the same handler; controller.distributeEvents hands each over once, in order.",
         "As C01; the link 'returned slice = appended events in order' is the exit clause result == events plus the executor's append-only treatment of the local."),
 "C03": ("Handler contract of controller.run for a list result from ANY invariant state: exact extracted list to cache.sync, events published iff initialised, watcher.reset with that list's version, failures fatal; extractList / listResourceVersion / executeList verified. Liveness ('at most one further relist') is NOT decided.",
         "API lists have unique keys; apimachinery meta helper contracts; cache.sync = doSync applied atomically (C15)."),
 "C04": ("Contracts of _watchSession.connect/run/stop and _watcher.run/reset/events: resume version = last event taken, frames translated and forwarded in order (drop only on full buffer), non-object frames skipped, output channel replaced only on a controller reset, retries never through the reset channel. The timing clause is NOT decided.",
         "The API server replays events after the resume version; timer/context library contracts."),
 "C05": ("Hop contracts with ghost embeddings (_subscription.run, typed subscription.run), publisher.distributeEvent exactly-once per subscription, controller.distributeEvents in order, publisher.run, hop-composition lemma, ownership of the subscription set; ordering clause 'cache updated before events are published'.",
         "Go channels are FIFO; premise: backlog below the buffer; arbitrary depth by induction on the hop lemma (not an SMT obligation)."),
 "C06": ("filterSubscription.run handler obligations (events unmodified to the private cache, refilter = list + refilter in one handler, filter invariant) and three SMT lemmas over the contracts (one-step commutation, refilter rebuilds filt(f,P), nesting = conjunction). Convergence with events in flight at list time is assumed, not proved.",
         "No parent event in flight at List() time for exactness; C01/C02."),
 "C07": ("Refilter handler obligations (FiltersEqual on the current filter, unchanged filter touches nothing, new filter: list+refilter+publish exactly the result) + doSync per-key event counter + SMT lemma that between filt(f1,P) and filt(f2,P) exactly the membership changes.",
         "Premises of the property (no parent event in flight; parent unchanged between refilters)."),
 "C08": ("State-machine invariants of filterSubscription.run and controller.run with obligations at every close(readych) (parent ready observed, filter supplied if deferred, private cache synced from a list read in that handler), nothing published before ready, constructors establish run's preconditions, Ready() pass-throughs.",
         "The watcher has no output channel before its first reset (invariant of _watcher.run, assumed in controller.run)."),
 "C09": ("Per generated join and IngressPods: clone via CloneForFilter, all four callbacks refilter with filterFn(current source content), Close only of created objects, monitor / intermediate join tied to the result's Done; selection rule = C19's filters. Quiescent convergence is by composition with C06/C16, not proved as one invariant.",
         "C06's in-flight assumption; the selection function returns a non-nil filter."),
 "C10": ("Structural blocking-effect obligations generated from all of /repo (non-blocking sends to consumers, every other blocking operation a sanctioned shape) + hop subsequence contracts.",
         "select/default semantics; liveness ('keep receiving') not decided."),
 "C11": ("Wiring obligations at constructor call sites (children watch the creator's ShuttingDown), exits close outputs once after the loop, every Close targets the feeding / created object only. 'Eventually' is NOT decided.",
         "go-lifecycle contract."),
 "C12": ("Safety skeleton only: lifecycle protocol in every run loop, guarded API (structural), cancel-before-wait, join-before-complete. Termination, bounded time, leak freedom are NOT decided and never reported as proved.",
         "Premise: client calls return once their context is cancelled."),
 "C13": ("Phase invariant of _lister.run (exactly one of tick/list/result pending, one list at a time, reset before next tick), ticker invariant over ghost timer state (no blocking timer receive), nextPeriod bounds over reals. Liveness and wall-clock bound NOT decided.",
         "time.Timer semantics as stated; floats as reals."),
 "C14": ("Fail-stop obligations of controller.run for every list failure path (shutdown with non-nil cause, no sync/ready/publish/reset afterwards), executeList/extractList error cases, Close passes nil, watch failures touch only the session lifecycle.",
         "errors.Wrap / go-lifecycle contracts; cascade is C11."),
 "C15": ("Generated ownership obligations for the cache state, exactly-once replies of _cache.run computed in the handler, stubs carry the caller's arguments, doList snapshot exact and fresh. The race-detector clause is replaced by static ownership.",
         "Request/response pairing through per-request channels; linearizability argument for a single-threaded server is trusted reasoning."),
 "C16": ("monitor.run: initialize first and once with the list read after Ready, then exactly one matching callback per event, none after shutdown, none if never ready; typed adapters call the same-kind callback iff adaptation succeeded.",
         "Events carry one of the three types (established at producers)."),
 "C17": ("Soundness of every Equals/FiltersEqual in /repo: result => same accept, proved on the SSA; immutability of representations generated as structural obligations. Completeness: every Equals proved against 'built the same way => true', one lemma per constructor over the constructor's own postconditions. Order-independence of the seven PodsFilter functions (sources with pairwise distinct namespace/name) and of ingress.ServicesFilter: comparator under contract, sort.Slice sorted by it, uniqueness of the sorted arrangement by induction, canonical-order view of each function, per-package lemma over two calls.",
         "reflect.DeepEqual / labels.Equals contracts; callers do not mutate maps handed to filters."),
 "C18": ("Every Accept in filter/ equals the accept function axiomatised from the property's sentences; constructors establish the representations; purity by empty frame.",
         "Kubernetes label matching is an assumed library contract."),
 "C19": ("Workload PodsFilter x7, NodeFilter, InvolvedFilter, SelectorMatchFilter proved against the ownership semantics; RC filter: two clauses are known findings (D3). ingress.ServicesFilter not under contract yet (not decided).",
         "sort.Slice permutation, label matching contracts; workloads have non-empty namespaces."),
 "C20": ("One contract template instantiated for the 12 typed packages + client request builders + 8 joins; API resource table written from the Kubernetes API. Textual equality with templates is NOT in this family.",
         "client-go request chain semantics."),
}
m = json.load(open('/verif/MANIFEST.json'))
checks = []
for pid in sorted(C):
    text, note = C[pid]
    checks.append({"property_id": pid, "quick_cmd": "./check %s --tier quick" % pid, "thorough_cmd": "./check %s --tier thorough" % pid,
                   "evidence_file": "/verif/evidence/%s.json" % pid, "engine": "kvc", "replay_cmd_template": "cat {path}",
                   "level_claimed": {"category": "proof", "text": text, "design_ref": "DESIGN.md section 4, " + pid},
                   "level_note": note, "technique": TECH})
m["checks"] = checks
m["not_applicable"] = []
m["engines"][0]["serves_properties"] = sorted(C)
log = subprocess.run(["git", "-C", "/repo", "log", "--format=%h %s"], capture_output=True, text=True).stdout.splitlines()
m["hooks"]["source_commits"] = [l.split()[0] for l in log if " verif hooks" in l][::-1]
m["notes"] = "contract-based deductive verification; see DESIGN.md. fix: commits in /repo: " + ", ".join(l.split()[0] for l in log if l.split(' ', 1)[1].startswith("fix:"))
json.dump(m, open('/verif/MANIFEST.json', 'w'), indent=1)
print(len(checks), "checks")
