#!/bin/bash
# usage: mut.sh <file-relative-to-repo> <sed-expression> <func-regex> [extra kvc args]
# copies /repo to a scratch dir, applies the edit, runs the engine on it, removes the copy.
set -e
f=$1; expr=$2; re=$3; shift 3
d=$(mktemp -d /tmp/kvcmut.XXXXXX)
trap 'rm -rf $d' EXIT
rsync -a --exclude .git /repo/ $d/
before=$(md5sum $d/$f)
sed -i -E "$expr" $d/$f
after=$(md5sum $d/$f)
if [ "$before" == "$after" ]; then echo "MUTATION DID NOT APPLY"; exit 3; fi
diff <(cd /repo && cat $f) $d/$f | head -10
(cd $d && GOFLAGS=-mod=mod GOPROXY=off GOSUMDB=off GOTOOLCHAIN=local go build ./... ) || { echo "DOES NOT COMPILE"; exit 4; }
/verif/bin/kvc verify -repo $d -func "$re" "$@" | sed "s#$d#/repo#g" | grep -v "^  ok" | tail -15
