#!/bin/bash
# run every quick check of MANIFEST.json on /repo, validate evidence files; usage: runall.sh [tier]
cd /verif
tier=${1:-quick}
fail=0
for id in $(python3 -c "import json;print(' '.join(c['property_id'] for c in json.load(open('MANIFEST.json'))['checks']))"); do
  out=$(./check $id --tier $tier 2>&1); rc=$?
  echo "$out" | tail -3
  if [ $rc -ne 0 ]; then echo "!!! $id exit=$rc"; fail=1; fi
done
python3-vt - <<'PY'
import json,jsonschema,sys
m=json.load(open('/verif/MANIFEST.json'))
jsonschema.validate(m,json.load(open('/root/.vp/MANIFEST.schema.json')))
sch=json.load(open('/root/.vp/EVIDENCE.schema.json'))
for c in m['checks']:
    ev=json.load(open(c['evidence_file']))
    jsonschema.validate(ev,sch)
    cov=ev['coverage']
    assert cov['obligations']==cov['discharged'], (c['property_id'],cov['obligations'],cov['discharged'])
    assert ev['violations']==0
print("manifest + evidence valid for", len(m['checks']), "checks")
PY
exit $fail
