#!/bin/bash
# Mutation score of the contracts: every syntactic mutant (bin/kmut) of one source file of /repo is
# written into a SCRATCH COPY, compiled, and all obligations of the contracts of that package plus
# the structural obligations are generated and discharged.  Output: one line per mutant
#   killed|SURVIVED|stillborn  <file:line function: mutation>  [first failing obligation]
# A surviving mutant is either equivalent/harmless for the 20 properties or a hole in the contracts;
# the list is reviewed by hand (DESIGN.md 9.9).  Not part of any registered check.
# usage: mutscore.sh <file relative to /repo> <function-name regexp for kvc verify> [jobs]
# KMUT_BASE=<dir>: mutate a snapshot of the repository instead of /repo (e.g. `git -C /repo archive HEAD | tar -x -C <dir>`),
# KMUT_KVC=<binary>: a copy of bin/kvc, so that the working tree and the engine can be edited while a long run is in progress.
f=$1; re=$2; jobs=${3:-4}
export KMUT_BASE=${KMUT_BASE:-/repo} KMUT_KVC=${KMUT_KVC:-/verif/bin/kvc}
export GOFLAGS=-mod=mod GOPROXY=off GOSUMDB=off GOTOOLCHAIN=local
cd /verif
[ -x bin/kmut ] || (cd engine && go build -o /verif/bin/kmut ./cmd/kmut)
n=$(./bin/kmut -file $KMUT_BASE/$f -count)
one() {
  i=$1; f=$2; re=$3
  s=$(mktemp -d /tmp/kmutwork.XXXXXX)
  rsync -a --exclude .git $KMUT_BASE/ $s/
  desc=$(/verif/bin/kmut -file $KMUT_BASE/$f -n $i 2>&1 >$s/$f.new | sed "s#$KMUT_BASE/##")
  mv $s/$f.new $s/$f
  if ! (cd $s && go build ./$(dirname $f) >/dev/null 2>&1); then echo "stillborn $desc"; rm -rf $s; return; fi
  out=$($KMUT_KVC verify -verif ${KMUT_VERIF:-/verif} -repo $s -func "$re" -structural -t 4 2>&1)
  rc=$?
  rm -rf $s
  if [ $rc -ne 0 ]; then
    first=$(echo "$out" | grep -E "^\s+FAIL|^REJECTED|^load:" | head -1 | awk '{print $4" "$1" "$2}' )
    echo "killed    $desc  [$first]"
  else
    echo "SURVIVED  $desc"
  fi
}
export -f one
seq 0 $((n-1)) | xargs -P $jobs -I{} bash -c "one {} '$f' '$re'"
