#!/bin/bash
# Mutation score of the contracts: every syntactic mutant (bin/kmut) of one source file of /repo is
# written into a SCRATCH COPY, compiled, and all obligations of the contracts of that package plus
# the structural obligations are generated and discharged.  Output: one line per mutant
#   killed|SURVIVED|stillborn  <file:line function: mutation>  [first failing obligation]
# A surviving mutant is either equivalent/harmless for the 20 properties or a hole in the contracts;
# the list is reviewed by hand (DESIGN.md 9.9).  Not part of any registered check.
# usage: mutscore.sh <file relative to /repo> <function-name regexp for kvc verify> [jobs]
f=$1; re=$2; jobs=${3:-4}
export GOFLAGS=-mod=mod GOPROXY=off GOSUMDB=off GOTOOLCHAIN=local
cd /verif
[ -x bin/kmut ] || (cd engine && go build -o /verif/bin/kmut ./cmd/kmut)
n=$(./bin/kmut -file /repo/$f -count)
one() {
  i=$1; f=$2; re=$3
  s=$(mktemp -d /tmp/kmutwork.XXXXXX)
  rsync -a --exclude .git /repo/ $s/
  desc=$(/verif/bin/kmut -file /repo/$f -n $i 2>&1 >$s/$f.new | sed "s#/repo/##")
  mv $s/$f.new $s/$f
  if ! (cd $s && go build ./$(dirname $f) >/dev/null 2>&1); then echo "stillborn $desc"; rm -rf $s; return; fi
  out=$(/verif/bin/kvc verify -repo $s -func "$re" -structural -t 4 2>&1)
  rc=$?
  rm -rf $s
  if [ $rc -ne 0 ]; then
    first=$(echo "$out" | grep -E "^\s+FAIL|^REJECTED|^load:" | head -1 | awk '{print $4" "$1" "$2}' )
    echo "killed    $desc  [$first]"
  else
    echo "SURVIVED  $desc"
  fi
}
export -f one
seq 0 $((n-1)) | xargs -P $jobs -I{} bash -c "one {} '$f' '$re'"
