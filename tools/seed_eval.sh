#!/bin/bash
# usage: seed_eval.sh <worktree> <out-subdir> <property> <demo-pkg-dir> <TestName> <checks...>
# 1. confirms in the scratch worktree: patch applies, builds, full suite passes, demo fails with / passes without
# 2. copies it to /verif/seeded/<property>-<name>/, 3. applies it to /repo, runs the given checks, undoes it.
export GOFLAGS=-mod=mod GOPROXY=off GOSUMDB=off GOTOOLCHAIN=local
wt=$1; name=$2; prop=$3; pkg=$4; tname=$5; shift 5
src=$wt/out/$name
cd $wt || exit 2
git checkout -q -- . 2>/dev/null; find . -name 'zz_*contracts_verif.go' -delete; rm -f $pkg/zz_demo_test.go
git apply --check $src/patch.diff || { echo "PATCH DOES NOT APPLY"; exit 3; }
git apply $src/patch.diff
go build ./... || { echo "DOES NOT BUILD"; exit 4; }
suite=$(go test -vet=off -count=1 ./... 2>&1 | grep -v "^ok\|no test files" | head -5)
cp $src/demo_test.go.txt $pkg/zz_demo_test.go
with=$(go test -vet=off -count=1 -timeout 120s -run "$tname" ./$pkg 2>&1 | tail -1)
git apply -R $src/patch.diff
without=$(go test -vet=off -count=1 -timeout 120s -run "$tname" ./$pkg 2>&1 | tail -1)
rm -f $pkg/zz_demo_test.go
echo "suite-with-change: ${suite:-all ok} | demo-with: $with | demo-without: $without"
dst=/verif/seeded/$prop-$name
mkdir -p $dst && cp $src/patch.diff $src/demo_test.go.txt $dst/ && cp $src/notes.md $dst/notes.md 2>/dev/null
res=""
cd /repo && git apply $dst/patch.diff || { echo "patch does not apply to /repo"; exit 5; }
for c in "$@"; do
  out=$(cd /verif && ./check $c 2>&1); rc=$?
  nv=$(echo "$out" | grep -c "^VIOLATION")
  first=$(echo "$out" | grep "^VIOLATION\|^UNDECIDED\|^ENGINE" | head -3 | sed 's#replay=/verif/replays/##')
  res="$res $c:exit=$rc,violations=$nv"
  echo "  check $c -> exit=$rc violations=$nv"; echo "$first" | sed 's/^/      /'
done
git -C /repo checkout -- .
python3 - "$dst" "$prop" "$name" "$pkg" "$tname" "${suite:-all ok}" "$with" "$without" "$res" <<'PY'
import json,sys
dst,prop,name,pkg,tname,suite,w,wo,res=sys.argv[1:]
json.dump({"property":prop,"name":name,"demo_package_dir":pkg,"demo_test":tname,
 "confirmed":{"suite_with_change":suite,"demo_with_change":w,"demo_without_change":wo},
 "needs_to_manifest":"see notes.md","checks_run":res.strip().split(),
 "what_i_ran":"tools/seed_eval.sh: git apply in a scratch worktree, go build, go test ./... (must pass), demo test with and without the patch; then git -C /repo apply, ./check <id>, git -C /repo checkout -- ."},
 open(dst+"/meta.json","w"),indent=1)
PY
