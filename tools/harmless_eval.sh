#!/bin/bash
# usage: harmless_eval.sh <worktree>...   every out/<name>/patch.diff of the given agent worktrees is applied to a scratch
# copy of /repo; ALL obligations (every contract block + structural) are generated and discharged; any failure is a
# false alarm candidate (the refactoring is meant to be behaviour-preserving) and is listed.
cd /verif
export GOFLAGS=-mod=mod GOPROXY=off GOSUMDB=off GOTOOLCHAIN=local
for wt in "$@"; do
  for d in $wt/out/*/; do
    n=$(basename $d)
    s=$(mktemp -d /tmp/kvcharm.XXXXXX)
    rsync -a --exclude .git /repo/ $s/
    if ! (cd $s && patch -p1 -s < $d/patch.diff); then echo "$n: PATCH DOES NOT APPLY"; rm -rf $s; continue; fi
    if ! (cd $s && go build ./... 2>/dev/null); then echo "$n: DOES NOT BUILD"; rm -rf $s; continue; fi
    out=$(./bin/kvc verify -repo $s -structural -t 20 2>&1)
    bad=$(echo "$out" | grep -E "^\s+FAIL|^REJECTED" | grep -v "replicationcontroller.PodsFilter/post.namespace-scoped")
    reb=$(echo "$out" | grep -o "rebinding accepted[^]]*" | head -3 | tr '\n' ';')
    rm -rf $s
    if [ -z "$bad" ]; then echo "quiet   $(basename $wt)/$n  $reb"; else echo "ALARM   $(basename $wt)/$n"; echo "$bad" | head -6 | sed "s#$s#/repo#g; s/^/        /" | cut -c1-220; fi
  done
done
