#!/bin/bash
# Must-pass corpus: harmless refactorings (renamed locals, reordered independent statements, added
# log lines, restructured control flow) applied to a scratch copy must build, pass the suite, and
# raise NO alarm from the checks of the properties they touch.
cd /verif
export GOFLAGS=-mod=mod GOPROXY=off GOSUMDB=off GOTOOLCHAIN=local
fail=0
for f in selftest/harmless/*.diff; do
  n=$(basename $f .diff)
  scratch=$(mktemp -d /tmp/kvcharm.XXXXXX)
  rsync -a --exclude .git /repo/ $scratch/
  if ! (cd $scratch && patch -p1 -s < /verif/$f); then echo "$n: PATCH DOES NOT APPLY"; rm -rf $scratch; fail=1; continue; fi
  if [ "${1:-}" == "--suite" ]; then
    (cd $scratch && go build ./... && go test -vet=off -count=1 ./... >/dev/null 2>&1) || { echo "$n: suite fails with the harmless change (bad corpus entry)"; fail=1; }
  fi
  for p in $(cat selftest/harmless/$n.props); do
    out=$(./bin/kvc check -repo $scratch -prop $p -no-evidence -no-replay 2>&1); rc=$?
    if [ $rc -ne 0 ]; then echo "FALSE ALARM  $n on $p (exit $rc): $(echo "$out" | grep "^VIOLATION\|^UNDECIDED\|^ENGINE" | head -2 | sed 's#replay=/verif/replays/##')"; fail=1; else echo "quiet        $n on $p"; fi
  done
  rm -rf $scratch
done
exit $fail
