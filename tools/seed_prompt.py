import json,sys
pid=sys.argv[1]; n=sys.argv[2]; files=sys.argv[3]; hint=sys.argv[4]
p=[json.loads(l) for l in open('/verif/properties.jsonl') if json.loads(l)['id']==pid][0]
print(f'''You are helping test a verification effort for the Go library boz/kcache (a channel-based Kubernetes object cache: list/watch controller feeding a versioned in-memory cache, pub/sub fan-out, refilterable subscriptions, joins). You have your own scratch git worktree of the repository at /tmp/wt_{pid} (work ONLY there; never touch /repo or /verif; do not read anything under /verif). Some files named zz_*contracts_verif.go appear as deleted in `git status` in the worktree: ignore that, do not restore them and do not include them in any diff.

Every shell command that uses go must first run: export GOFLAGS=-mod=mod GOPROXY=off GOSUMDB=off GOTOOLCHAIN=local   (the sandbox has no network; env does not persist between calls). The existing test suite is run with: cd /tmp/wt_{pid} && go test -vet=off -count=1 ./...  (about 30-60 s; run it 2 times for changes to concurrent code, it must pass every time).

Here is a semantic property the library is supposed to satisfy:

---
{pid}: {p['title']}

{p['statement']}
---

The relevant code: {files}. Read README.md and the code you need first.

Your task: produce {n} different, realistic changes (like a plausible bug a maintainer could introduce during a refactoring, clean-up or "optimisation") to the library's NON-test source that BREAK this property, while the code still compiles and the ENTIRE existing test suite still passes. Prefer changes that need something specific to manifest — a particular interleaving or timing, a fault at a particular point, a multi-step sequence of operations, an unusual input, or two cooperating edits that each look fine alone — rather than ones that ordinary use would expose at once. {hint} Make the changes different in nature and location. Each change should be small (a few lines). Do not change exported signatures.

For EACH change deliver, under /tmp/wt_{pid}/out/<name>/ (name = short kebab-case id):
  - patch.diff : `git diff` of ONLY the library source files you changed (apply-able with `git apply` on a clean checkout of the same commit; no test files, no zz_*contracts_verif.go deletions). Generate it with e.g. `git diff -- file.go > out/<name>/patch.diff`.
  - demo_test.go.txt : a Go test file that FAILS (deterministically or at least reliably, use generous but bounded timeouts; total run < 30 s) with the change applied and PASSES reliably on the unchanged code. In-package tests (package kcache in the repo root) can reach unexported things; look at the existing *_test.go files (controller_test.go, subscription_filter_test.go, publisher_test.go, testutils_test.go, testutil/) for how to build controllers with fake clients. State in a comment at the top which directory the file belongs in, its package clause, and the test name.
  - notes.md : what the change is, which clause of the property it breaks, what it needs in order to manifest, and the exact commands you ran with their outcome (full suite passes with the change; demo fails with the change and passes without it).
Work on one change at a time: apply it, run the full suite, run your demo (copy the demo file into the right package dir as zz_demo_test.go while testing, then remove it), save outputs, then `git checkout -- <files>` to restore the source before starting the next change. At the end the worktree's tracked source files must be unmodified (except the pre-existing deleted zz_*contracts files), with only the out/ directory added.

Verify everything yourself by actually running the commands; do not guess. If an idea turns out to make the existing suite fail, drop it and find another. Final answer: the list of change names with a one-line description each (file/function touched, what it needs to manifest), the demo package dir and test name for each, and confirmation of the verification results.''')
